
(** val negb : bool -> bool **)

let negb = function
| true -> false
| false -> true

type nat =
| O
| S of nat

(** val fst : ('a1 * 'a2) -> 'a1 **)

let fst = function
| (x, _) -> x

(** val snd : ('a1 * 'a2) -> 'a2 **)

let snd = function
| (_, y) -> y

(** val length : 'a1 list -> nat **)

let rec length = function
| [] -> O
| _ :: l' -> S (length l')

(** val app : 'a1 list -> 'a1 list -> 'a1 list **)

let rec app l m =
  match l with
  | [] -> m
  | a :: l1 -> a :: (app l1 m)

type comparison =
| Eq
| Lt
| Gt

(** val compOpp : comparison -> comparison **)

let compOpp = function
| Eq -> Eq
| Lt -> Gt
| Gt -> Lt

module Coq__1 = struct
 (** val add : nat -> nat -> nat **)
 let rec add n0 m =
   match n0 with
   | O -> m
   | S p -> S (add p m)
end
include Coq__1

(** val mul : nat -> nat -> nat **)

let rec mul n0 m =
  match n0 with
  | O -> O
  | S p -> add m (mul p m)

(** val sub : nat -> nat -> nat **)

let rec sub n0 m =
  match n0 with
  | O -> n0
  | S k -> (match m with
            | O -> n0
            | S l -> sub k l)

(** val leb : nat -> nat -> bool **)

let rec leb n0 m =
  match n0 with
  | O -> true
  | S n' -> (match m with
             | O -> false
             | S m' -> leb n' m')

(** val ltb : nat -> nat -> bool **)

let ltb n0 m =
  leb (S n0) m

type byte =
| X00
| X01
| X02
| X03
| X04
| X05
| X06
| X07
| X08
| X09
| X0a
| X0b
| X0c
| X0d
| X0e
| X0f
| X10
| X11
| X12
| X13
| X14
| X15
| X16
| X17
| X18
| X19
| X1a
| X1b
| X1c
| X1d
| X1e
| X1f
| X20
| X21
| X22
| X23
| X24
| X25
| X26
| X27
| X28
| X29
| X2a
| X2b
| X2c
| X2d
| X2e
| X2f
| X30
| X31
| X32
| X33
| X34
| X35
| X36
| X37
| X38
| X39
| X3a
| X3b
| X3c
| X3d
| X3e
| X3f
| X40
| X41
| X42
| X43
| X44
| X45
| X46
| X47
| X48
| X49
| X4a
| X4b
| X4c
| X4d
| X4e
| X4f
| X50
| X51
| X52
| X53
| X54
| X55
| X56
| X57
| X58
| X59
| X5a
| X5b
| X5c
| X5d
| X5e
| X5f
| X60
| X61
| X62
| X63
| X64
| X65
| X66
| X67
| X68
| X69
| X6a
| X6b
| X6c
| X6d
| X6e
| X6f
| X70
| X71
| X72
| X73
| X74
| X75
| X76
| X77
| X78
| X79
| X7a
| X7b
| X7c
| X7d
| X7e
| X7f
| X80
| X81
| X82
| X83
| X84
| X85
| X86
| X87
| X88
| X89
| X8a
| X8b
| X8c
| X8d
| X8e
| X8f
| X90
| X91
| X92
| X93
| X94
| X95
| X96
| X97
| X98
| X99
| X9a
| X9b
| X9c
| X9d
| X9e
| X9f
| Xa0
| Xa1
| Xa2
| Xa3
| Xa4
| Xa5
| Xa6
| Xa7
| Xa8
| Xa9
| Xaa
| Xab
| Xac
| Xad
| Xae
| Xaf
| Xb0
| Xb1
| Xb2
| Xb3
| Xb4
| Xb5
| Xb6
| Xb7
| Xb8
| Xb9
| Xba
| Xbb
| Xbc
| Xbd
| Xbe
| Xbf
| Xc0
| Xc1
| Xc2
| Xc3
| Xc4
| Xc5
| Xc6
| Xc7
| Xc8
| Xc9
| Xca
| Xcb
| Xcc
| Xcd
| Xce
| Xcf
| Xd0
| Xd1
| Xd2
| Xd3
| Xd4
| Xd5
| Xd6
| Xd7
| Xd8
| Xd9
| Xda
| Xdb
| Xdc
| Xdd
| Xde
| Xdf
| Xe0
| Xe1
| Xe2
| Xe3
| Xe4
| Xe5
| Xe6
| Xe7
| Xe8
| Xe9
| Xea
| Xeb
| Xec
| Xed
| Xee
| Xef
| Xf0
| Xf1
| Xf2
| Xf3
| Xf4
| Xf5
| Xf6
| Xf7
| Xf8
| Xf9
| Xfa
| Xfb
| Xfc
| Xfd
| Xfe
| Xff

module Nat =
 struct
  (** val eqb : nat -> nat -> bool **)

  let rec eqb n0 m =
    match n0 with
    | O -> (match m with
            | O -> true
            | S _ -> false)
    | S n' -> (match m with
               | O -> false
               | S m' -> eqb n' m')

  (** val leb : nat -> nat -> bool **)

  let rec leb n0 m =
    match n0 with
    | O -> true
    | S n' -> (match m with
               | O -> false
               | S m' -> leb n' m')

  (** val ltb : nat -> nat -> bool **)

  let ltb n0 m =
    leb (S n0) m

  (** val max : nat -> nat -> nat **)

  let rec max n0 m =
    match n0 with
    | O -> m
    | S n' -> (match m with
               | O -> n0
               | S m' -> S (max n' m'))
 end

(** val nth : nat -> 'a1 list -> 'a1 -> 'a1 **)

let rec nth n0 l default =
  match n0 with
  | O -> (match l with
          | [] -> default
          | x :: _ -> x)
  | S m -> (match l with
            | [] -> default
            | _ :: t -> nth m t default)

(** val rev : 'a1 list -> 'a1 list **)

let rec rev = function
| [] -> []
| x :: l' -> app (rev l') (x :: [])

(** val rev_append : 'a1 list -> 'a1 list -> 'a1 list **)

let rec rev_append l l' =
  match l with
  | [] -> l'
  | a :: l0 -> rev_append l0 (a :: l')

(** val map : ('a1 -> 'a2) -> 'a1 list -> 'a2 list **)

let rec map f = function
| [] -> []
| a :: t -> (f a) :: (map f t)

(** val flat_map : ('a1 -> 'a2 list) -> 'a1 list -> 'a2 list **)

let rec flat_map f = function
| [] -> []
| x :: t -> app (f x) (flat_map f t)

(** val fold_left : ('a1 -> 'a2 -> 'a1) -> 'a2 list -> 'a1 -> 'a1 **)

let rec fold_left f l a0 =
  match l with
  | [] -> a0
  | b :: t -> fold_left f t (f a0 b)

(** val existsb : ('a1 -> bool) -> 'a1 list -> bool **)

let rec existsb f = function
| [] -> false
| a :: l0 -> (||) (f a) (existsb f l0)

(** val forallb : ('a1 -> bool) -> 'a1 list -> bool **)

let rec forallb f = function
| [] -> true
| a :: l0 -> (&&) (f a) (forallb f l0)

(** val firstn : nat -> 'a1 list -> 'a1 list **)

let rec firstn n0 l =
  match n0 with
  | O -> []
  | S n1 -> (match l with
             | [] -> []
             | a :: l0 -> a :: (firstn n1 l0))

(** val skipn : nat -> 'a1 list -> 'a1 list **)

let rec skipn n0 l =
  match n0 with
  | O -> l
  | S n1 -> (match l with
             | [] -> []
             | _ :: l0 -> skipn n1 l0)

(** val seq : nat -> nat -> nat list **)

let rec seq start = function
| O -> []
| S len0 -> start :: (seq (S start) len0)

(** val repeat : 'a1 -> nat -> 'a1 list **)

let rec repeat x = function
| O -> []
| S k -> x :: (repeat x k)

type positive =
| XI of positive
| XO of positive
| XH

type n =
| N0
| Npos of positive

type z =
| Z0
| Zpos of positive
| Zneg of positive

module Pos =
 struct
  type mask =
  | IsNul
  | IsPos of positive
  | IsNeg
 end

module Coq_Pos =
 struct
  (** val succ : positive -> positive **)

  let rec succ = function
  | XI p -> XO (succ p)
  | XO p -> XI p
  | XH -> XO XH

  (** val add : positive -> positive -> positive **)

  let rec add x y =
    match x with
    | XI p ->
      (match y with
       | XI q -> XO (add_carry p q)
       | XO q -> XI (add p q)
       | XH -> XO (succ p))
    | XO p ->
      (match y with
       | XI q -> XI (add p q)
       | XO q -> XO (add p q)
       | XH -> XI p)
    | XH -> (match y with
             | XI q -> XO (succ q)
             | XO q -> XI q
             | XH -> XO XH)

  (** val add_carry : positive -> positive -> positive **)

  and add_carry x y =
    match x with
    | XI p ->
      (match y with
       | XI q -> XI (add_carry p q)
       | XO q -> XO (add_carry p q)
       | XH -> XI (succ p))
    | XO p ->
      (match y with
       | XI q -> XO (add_carry p q)
       | XO q -> XI (add p q)
       | XH -> XO (succ p))
    | XH ->
      (match y with
       | XI q -> XI (succ q)
       | XO q -> XO (succ q)
       | XH -> XI XH)

  (** val pred_double : positive -> positive **)

  let rec pred_double = function
  | XI p -> XI (XO p)
  | XO p -> XI (pred_double p)
  | XH -> XH

  type mask = Pos.mask =
  | IsNul
  | IsPos of positive
  | IsNeg

  (** val succ_double_mask : mask -> mask **)

  let succ_double_mask = function
  | IsNul -> IsPos XH
  | IsPos p -> IsPos (XI p)
  | IsNeg -> IsNeg

  (** val double_mask : mask -> mask **)

  let double_mask = function
  | IsPos p -> IsPos (XO p)
  | x0 -> x0

  (** val double_pred_mask : positive -> mask **)

  let double_pred_mask = function
  | XI p -> IsPos (XO (XO p))
  | XO p -> IsPos (XO (pred_double p))
  | XH -> IsNul

  (** val sub_mask : positive -> positive -> mask **)

  let rec sub_mask x y =
    match x with
    | XI p ->
      (match y with
       | XI q -> double_mask (sub_mask p q)
       | XO q -> succ_double_mask (sub_mask p q)
       | XH -> IsPos (XO p))
    | XO p ->
      (match y with
       | XI q -> succ_double_mask (sub_mask_carry p q)
       | XO q -> double_mask (sub_mask p q)
       | XH -> IsPos (pred_double p))
    | XH -> (match y with
             | XH -> IsNul
             | _ -> IsNeg)

  (** val sub_mask_carry : positive -> positive -> mask **)

  and sub_mask_carry x y =
    match x with
    | XI p ->
      (match y with
       | XI q -> succ_double_mask (sub_mask_carry p q)
       | XO q -> double_mask (sub_mask p q)
       | XH -> IsPos (pred_double p))
    | XO p ->
      (match y with
       | XI q -> double_mask (sub_mask_carry p q)
       | XO q -> succ_double_mask (sub_mask_carry p q)
       | XH -> double_pred_mask p)
    | XH -> IsNeg

  (** val mul : positive -> positive -> positive **)

  let rec mul x y =
    match x with
    | XI p -> add y (XO (mul p y))
    | XO p -> XO (mul p y)
    | XH -> y

  (** val size : positive -> positive **)

  let rec size = function
  | XI p0 -> succ (size p0)
  | XO p0 -> succ (size p0)
  | XH -> XH

  (** val compare_cont : comparison -> positive -> positive -> comparison **)

  let rec compare_cont r x y =
    match x with
    | XI p ->
      (match y with
       | XI q -> compare_cont r p q
       | XO q -> compare_cont Gt p q
       | XH -> Gt)
    | XO p ->
      (match y with
       | XI q -> compare_cont Lt p q
       | XO q -> compare_cont r p q
       | XH -> Gt)
    | XH -> (match y with
             | XH -> r
             | _ -> Lt)

  (** val compare : positive -> positive -> comparison **)

  let compare =
    compare_cont Eq

  (** val eqb : positive -> positive -> bool **)

  let rec eqb p q =
    match p with
    | XI p0 -> (match q with
                | XI q0 -> eqb p0 q0
                | _ -> false)
    | XO p0 -> (match q with
                | XO q0 -> eqb p0 q0
                | _ -> false)
    | XH -> (match q with
             | XH -> true
             | _ -> false)

  (** val iter_op : ('a1 -> 'a1 -> 'a1) -> positive -> 'a1 -> 'a1 **)

  let rec iter_op op0 p a =
    match p with
    | XI p0 -> op0 a (iter_op op0 p0 (op0 a a))
    | XO p0 -> iter_op op0 p0 (op0 a a)
    | XH -> a

  (** val to_nat : positive -> nat **)

  let to_nat x =
    iter_op Coq__1.add x (S O)

  (** val of_succ_nat : nat -> positive **)

  let rec of_succ_nat = function
  | O -> XH
  | S x -> succ (of_succ_nat x)
 end

module N =
 struct
  (** val succ_double : n -> n **)

  let succ_double = function
  | N0 -> Npos XH
  | Npos p -> Npos (XI p)

  (** val double : n -> n **)

  let double = function
  | N0 -> N0
  | Npos p -> Npos (XO p)

  (** val add : n -> n -> n **)

  let add n0 m =
    match n0 with
    | N0 -> m
    | Npos p -> (match m with
                 | N0 -> n0
                 | Npos q -> Npos (Coq_Pos.add p q))

  (** val sub : n -> n -> n **)

  let sub n0 m =
    match n0 with
    | N0 -> N0
    | Npos n' ->
      (match m with
       | N0 -> n0
       | Npos m' ->
         (match Coq_Pos.sub_mask n' m' with
          | Coq_Pos.IsPos p -> Npos p
          | _ -> N0))

  (** val mul : n -> n -> n **)

  let mul n0 m =
    match n0 with
    | N0 -> N0
    | Npos p -> (match m with
                 | N0 -> N0
                 | Npos q -> Npos (Coq_Pos.mul p q))

  (** val compare : n -> n -> comparison **)

  let compare n0 m =
    match n0 with
    | N0 -> (match m with
             | N0 -> Eq
             | Npos _ -> Lt)
    | Npos n' -> (match m with
                  | N0 -> Gt
                  | Npos m' -> Coq_Pos.compare n' m')

  (** val eqb : n -> n -> bool **)

  let eqb n0 m =
    match n0 with
    | N0 -> (match m with
             | N0 -> true
             | Npos _ -> false)
    | Npos p -> (match m with
                 | N0 -> false
                 | Npos q -> Coq_Pos.eqb p q)

  (** val leb : n -> n -> bool **)

  let leb x y =
    match compare x y with
    | Gt -> false
    | _ -> true

  (** val ltb : n -> n -> bool **)

  let ltb x y =
    match compare x y with
    | Lt -> true
    | _ -> false

  (** val size : n -> n **)

  let size = function
  | N0 -> N0
  | Npos p -> Npos (Coq_Pos.size p)

  (** val pos_div_eucl : positive -> n -> n * n **)

  let rec pos_div_eucl a b =
    match a with
    | XI a' ->
      let (q, r) = pos_div_eucl a' b in
      let r' = succ_double r in
      if leb b r' then ((succ_double q), (sub r' b)) else ((double q), r')
    | XO a' ->
      let (q, r) = pos_div_eucl a' b in
      let r' = double r in
      if leb b r' then ((succ_double q), (sub r' b)) else ((double q), r')
    | XH ->
      (match b with
       | N0 -> (N0, (Npos XH))
       | Npos p -> (match p with
                    | XH -> ((Npos XH), N0)
                    | _ -> (N0, (Npos XH))))

  (** val div_eucl : n -> n -> n * n **)

  let div_eucl a b =
    match a with
    | N0 -> (N0, N0)
    | Npos na -> (match b with
                  | N0 -> (N0, a)
                  | Npos _ -> pos_div_eucl na b)

  (** val div : n -> n -> n **)

  let div a b =
    fst (div_eucl a b)

  (** val modulo : n -> n -> n **)

  let modulo a b =
    snd (div_eucl a b)

  (** val to_nat : n -> nat **)

  let to_nat = function
  | N0 -> O
  | Npos p -> Coq_Pos.to_nat p

  (** val of_nat : nat -> n **)

  let of_nat = function
  | O -> N0
  | S n' -> Npos (Coq_Pos.of_succ_nat n')
 end

(** val to_N : byte -> n **)

let to_N = function
| X00 -> N0
| X01 -> Npos XH
| X02 -> Npos (XO XH)
| X03 -> Npos (XI XH)
| X04 -> Npos (XO (XO XH))
| X05 -> Npos (XI (XO XH))
| X06 -> Npos (XO (XI XH))
| X07 -> Npos (XI (XI XH))
| X08 -> Npos (XO (XO (XO XH)))
| X09 -> Npos (XI (XO (XO XH)))
| X0a -> Npos (XO (XI (XO XH)))
| X0b -> Npos (XI (XI (XO XH)))
| X0c -> Npos (XO (XO (XI XH)))
| X0d -> Npos (XI (XO (XI XH)))
| X0e -> Npos (XO (XI (XI XH)))
| X0f -> Npos (XI (XI (XI XH)))
| X10 -> Npos (XO (XO (XO (XO XH))))
| X11 -> Npos (XI (XO (XO (XO XH))))
| X12 -> Npos (XO (XI (XO (XO XH))))
| X13 -> Npos (XI (XI (XO (XO XH))))
| X14 -> Npos (XO (XO (XI (XO XH))))
| X15 -> Npos (XI (XO (XI (XO XH))))
| X16 -> Npos (XO (XI (XI (XO XH))))
| X17 -> Npos (XI (XI (XI (XO XH))))
| X18 -> Npos (XO (XO (XO (XI XH))))
| X19 -> Npos (XI (XO (XO (XI XH))))
| X1a -> Npos (XO (XI (XO (XI XH))))
| X1b -> Npos (XI (XI (XO (XI XH))))
| X1c -> Npos (XO (XO (XI (XI XH))))
| X1d -> Npos (XI (XO (XI (XI XH))))
| X1e -> Npos (XO (XI (XI (XI XH))))
| X1f -> Npos (XI (XI (XI (XI XH))))
| X20 -> Npos (XO (XO (XO (XO (XO XH)))))
| X21 -> Npos (XI (XO (XO (XO (XO XH)))))
| X22 -> Npos (XO (XI (XO (XO (XO XH)))))
| X23 -> Npos (XI (XI (XO (XO (XO XH)))))
| X24 -> Npos (XO (XO (XI (XO (XO XH)))))
| X25 -> Npos (XI (XO (XI (XO (XO XH)))))
| X26 -> Npos (XO (XI (XI (XO (XO XH)))))
| X27 -> Npos (XI (XI (XI (XO (XO XH)))))
| X28 -> Npos (XO (XO (XO (XI (XO XH)))))
| X29 -> Npos (XI (XO (XO (XI (XO XH)))))
| X2a -> Npos (XO (XI (XO (XI (XO XH)))))
| X2b -> Npos (XI (XI (XO (XI (XO XH)))))
| X2c -> Npos (XO (XO (XI (XI (XO XH)))))
| X2d -> Npos (XI (XO (XI (XI (XO XH)))))
| X2e -> Npos (XO (XI (XI (XI (XO XH)))))
| X2f -> Npos (XI (XI (XI (XI (XO XH)))))
| X30 -> Npos (XO (XO (XO (XO (XI XH)))))
| X31 -> Npos (XI (XO (XO (XO (XI XH)))))
| X32 -> Npos (XO (XI (XO (XO (XI XH)))))
| X33 -> Npos (XI (XI (XO (XO (XI XH)))))
| X34 -> Npos (XO (XO (XI (XO (XI XH)))))
| X35 -> Npos (XI (XO (XI (XO (XI XH)))))
| X36 -> Npos (XO (XI (XI (XO (XI XH)))))
| X37 -> Npos (XI (XI (XI (XO (XI XH)))))
| X38 -> Npos (XO (XO (XO (XI (XI XH)))))
| X39 -> Npos (XI (XO (XO (XI (XI XH)))))
| X3a -> Npos (XO (XI (XO (XI (XI XH)))))
| X3b -> Npos (XI (XI (XO (XI (XI XH)))))
| X3c -> Npos (XO (XO (XI (XI (XI XH)))))
| X3d -> Npos (XI (XO (XI (XI (XI XH)))))
| X3e -> Npos (XO (XI (XI (XI (XI XH)))))
| X3f -> Npos (XI (XI (XI (XI (XI XH)))))
| X40 -> Npos (XO (XO (XO (XO (XO (XO XH))))))
| X41 -> Npos (XI (XO (XO (XO (XO (XO XH))))))
| X42 -> Npos (XO (XI (XO (XO (XO (XO XH))))))
| X43 -> Npos (XI (XI (XO (XO (XO (XO XH))))))
| X44 -> Npos (XO (XO (XI (XO (XO (XO XH))))))
| X45 -> Npos (XI (XO (XI (XO (XO (XO XH))))))
| X46 -> Npos (XO (XI (XI (XO (XO (XO XH))))))
| X47 -> Npos (XI (XI (XI (XO (XO (XO XH))))))
| X48 -> Npos (XO (XO (XO (XI (XO (XO XH))))))
| X49 -> Npos (XI (XO (XO (XI (XO (XO XH))))))
| X4a -> Npos (XO (XI (XO (XI (XO (XO XH))))))
| X4b -> Npos (XI (XI (XO (XI (XO (XO XH))))))
| X4c -> Npos (XO (XO (XI (XI (XO (XO XH))))))
| X4d -> Npos (XI (XO (XI (XI (XO (XO XH))))))
| X4e -> Npos (XO (XI (XI (XI (XO (XO XH))))))
| X4f -> Npos (XI (XI (XI (XI (XO (XO XH))))))
| X50 -> Npos (XO (XO (XO (XO (XI (XO XH))))))
| X51 -> Npos (XI (XO (XO (XO (XI (XO XH))))))
| X52 -> Npos (XO (XI (XO (XO (XI (XO XH))))))
| X53 -> Npos (XI (XI (XO (XO (XI (XO XH))))))
| X54 -> Npos (XO (XO (XI (XO (XI (XO XH))))))
| X55 -> Npos (XI (XO (XI (XO (XI (XO XH))))))
| X56 -> Npos (XO (XI (XI (XO (XI (XO XH))))))
| X57 -> Npos (XI (XI (XI (XO (XI (XO XH))))))
| X58 -> Npos (XO (XO (XO (XI (XI (XO XH))))))
| X59 -> Npos (XI (XO (XO (XI (XI (XO XH))))))
| X5a -> Npos (XO (XI (XO (XI (XI (XO XH))))))
| X5b -> Npos (XI (XI (XO (XI (XI (XO XH))))))
| X5c -> Npos (XO (XO (XI (XI (XI (XO XH))))))
| X5d -> Npos (XI (XO (XI (XI (XI (XO XH))))))
| X5e -> Npos (XO (XI (XI (XI (XI (XO XH))))))
| X5f -> Npos (XI (XI (XI (XI (XI (XO XH))))))
| X60 -> Npos (XO (XO (XO (XO (XO (XI XH))))))
| X61 -> Npos (XI (XO (XO (XO (XO (XI XH))))))
| X62 -> Npos (XO (XI (XO (XO (XO (XI XH))))))
| X63 -> Npos (XI (XI (XO (XO (XO (XI XH))))))
| X64 -> Npos (XO (XO (XI (XO (XO (XI XH))))))
| X65 -> Npos (XI (XO (XI (XO (XO (XI XH))))))
| X66 -> Npos (XO (XI (XI (XO (XO (XI XH))))))
| X67 -> Npos (XI (XI (XI (XO (XO (XI XH))))))
| X68 -> Npos (XO (XO (XO (XI (XO (XI XH))))))
| X69 -> Npos (XI (XO (XO (XI (XO (XI XH))))))
| X6a -> Npos (XO (XI (XO (XI (XO (XI XH))))))
| X6b -> Npos (XI (XI (XO (XI (XO (XI XH))))))
| X6c -> Npos (XO (XO (XI (XI (XO (XI XH))))))
| X6d -> Npos (XI (XO (XI (XI (XO (XI XH))))))
| X6e -> Npos (XO (XI (XI (XI (XO (XI XH))))))
| X6f -> Npos (XI (XI (XI (XI (XO (XI XH))))))
| X70 -> Npos (XO (XO (XO (XO (XI (XI XH))))))
| X71 -> Npos (XI (XO (XO (XO (XI (XI XH))))))
| X72 -> Npos (XO (XI (XO (XO (XI (XI XH))))))
| X73 -> Npos (XI (XI (XO (XO (XI (XI XH))))))
| X74 -> Npos (XO (XO (XI (XO (XI (XI XH))))))
| X75 -> Npos (XI (XO (XI (XO (XI (XI XH))))))
| X76 -> Npos (XO (XI (XI (XO (XI (XI XH))))))
| X77 -> Npos (XI (XI (XI (XO (XI (XI XH))))))
| X78 -> Npos (XO (XO (XO (XI (XI (XI XH))))))
| X79 -> Npos (XI (XO (XO (XI (XI (XI XH))))))
| X7a -> Npos (XO (XI (XO (XI (XI (XI XH))))))
| X7b -> Npos (XI (XI (XO (XI (XI (XI XH))))))
| X7c -> Npos (XO (XO (XI (XI (XI (XI XH))))))
| X7d -> Npos (XI (XO (XI (XI (XI (XI XH))))))
| X7e -> Npos (XO (XI (XI (XI (XI (XI XH))))))
| X7f -> Npos (XI (XI (XI (XI (XI (XI XH))))))
| X80 -> Npos (XO (XO (XO (XO (XO (XO (XO XH)))))))
| X81 -> Npos (XI (XO (XO (XO (XO (XO (XO XH)))))))
| X82 -> Npos (XO (XI (XO (XO (XO (XO (XO XH)))))))
| X83 -> Npos (XI (XI (XO (XO (XO (XO (XO XH)))))))
| X84 -> Npos (XO (XO (XI (XO (XO (XO (XO XH)))))))
| X85 -> Npos (XI (XO (XI (XO (XO (XO (XO XH)))))))
| X86 -> Npos (XO (XI (XI (XO (XO (XO (XO XH)))))))
| X87 -> Npos (XI (XI (XI (XO (XO (XO (XO XH)))))))
| X88 -> Npos (XO (XO (XO (XI (XO (XO (XO XH)))))))
| X89 -> Npos (XI (XO (XO (XI (XO (XO (XO XH)))))))
| X8a -> Npos (XO (XI (XO (XI (XO (XO (XO XH)))))))
| X8b -> Npos (XI (XI (XO (XI (XO (XO (XO XH)))))))
| X8c -> Npos (XO (XO (XI (XI (XO (XO (XO XH)))))))
| X8d -> Npos (XI (XO (XI (XI (XO (XO (XO XH)))))))
| X8e -> Npos (XO (XI (XI (XI (XO (XO (XO XH)))))))
| X8f -> Npos (XI (XI (XI (XI (XO (XO (XO XH)))))))
| X90 -> Npos (XO (XO (XO (XO (XI (XO (XO XH)))))))
| X91 -> Npos (XI (XO (XO (XO (XI (XO (XO XH)))))))
| X92 -> Npos (XO (XI (XO (XO (XI (XO (XO XH)))))))
| X93 -> Npos (XI (XI (XO (XO (XI (XO (XO XH)))))))
| X94 -> Npos (XO (XO (XI (XO (XI (XO (XO XH)))))))
| X95 -> Npos (XI (XO (XI (XO (XI (XO (XO XH)))))))
| X96 -> Npos (XO (XI (XI (XO (XI (XO (XO XH)))))))
| X97 -> Npos (XI (XI (XI (XO (XI (XO (XO XH)))))))
| X98 -> Npos (XO (XO (XO (XI (XI (XO (XO XH)))))))
| X99 -> Npos (XI (XO (XO (XI (XI (XO (XO XH)))))))
| X9a -> Npos (XO (XI (XO (XI (XI (XO (XO XH)))))))
| X9b -> Npos (XI (XI (XO (XI (XI (XO (XO XH)))))))
| X9c -> Npos (XO (XO (XI (XI (XI (XO (XO XH)))))))
| X9d -> Npos (XI (XO (XI (XI (XI (XO (XO XH)))))))
| X9e -> Npos (XO (XI (XI (XI (XI (XO (XO XH)))))))
| X9f -> Npos (XI (XI (XI (XI (XI (XO (XO XH)))))))
| Xa0 -> Npos (XO (XO (XO (XO (XO (XI (XO XH)))))))
| Xa1 -> Npos (XI (XO (XO (XO (XO (XI (XO XH)))))))
| Xa2 -> Npos (XO (XI (XO (XO (XO (XI (XO XH)))))))
| Xa3 -> Npos (XI (XI (XO (XO (XO (XI (XO XH)))))))
| Xa4 -> Npos (XO (XO (XI (XO (XO (XI (XO XH)))))))
| Xa5 -> Npos (XI (XO (XI (XO (XO (XI (XO XH)))))))
| Xa6 -> Npos (XO (XI (XI (XO (XO (XI (XO XH)))))))
| Xa7 -> Npos (XI (XI (XI (XO (XO (XI (XO XH)))))))
| Xa8 -> Npos (XO (XO (XO (XI (XO (XI (XO XH)))))))
| Xa9 -> Npos (XI (XO (XO (XI (XO (XI (XO XH)))))))
| Xaa -> Npos (XO (XI (XO (XI (XO (XI (XO XH)))))))
| Xab -> Npos (XI (XI (XO (XI (XO (XI (XO XH)))))))
| Xac -> Npos (XO (XO (XI (XI (XO (XI (XO XH)))))))
| Xad -> Npos (XI (XO (XI (XI (XO (XI (XO XH)))))))
| Xae -> Npos (XO (XI (XI (XI (XO (XI (XO XH)))))))
| Xaf -> Npos (XI (XI (XI (XI (XO (XI (XO XH)))))))
| Xb0 -> Npos (XO (XO (XO (XO (XI (XI (XO XH)))))))
| Xb1 -> Npos (XI (XO (XO (XO (XI (XI (XO XH)))))))
| Xb2 -> Npos (XO (XI (XO (XO (XI (XI (XO XH)))))))
| Xb3 -> Npos (XI (XI (XO (XO (XI (XI (XO XH)))))))
| Xb4 -> Npos (XO (XO (XI (XO (XI (XI (XO XH)))))))
| Xb5 -> Npos (XI (XO (XI (XO (XI (XI (XO XH)))))))
| Xb6 -> Npos (XO (XI (XI (XO (XI (XI (XO XH)))))))
| Xb7 -> Npos (XI (XI (XI (XO (XI (XI (XO XH)))))))
| Xb8 -> Npos (XO (XO (XO (XI (XI (XI (XO XH)))))))
| Xb9 -> Npos (XI (XO (XO (XI (XI (XI (XO XH)))))))
| Xba -> Npos (XO (XI (XO (XI (XI (XI (XO XH)))))))
| Xbb -> Npos (XI (XI (XO (XI (XI (XI (XO XH)))))))
| Xbc -> Npos (XO (XO (XI (XI (XI (XI (XO XH)))))))
| Xbd -> Npos (XI (XO (XI (XI (XI (XI (XO XH)))))))
| Xbe -> Npos (XO (XI (XI (XI (XI (XI (XO XH)))))))
| Xbf -> Npos (XI (XI (XI (XI (XI (XI (XO XH)))))))
| Xc0 -> Npos (XO (XO (XO (XO (XO (XO (XI XH)))))))
| Xc1 -> Npos (XI (XO (XO (XO (XO (XO (XI XH)))))))
| Xc2 -> Npos (XO (XI (XO (XO (XO (XO (XI XH)))))))
| Xc3 -> Npos (XI (XI (XO (XO (XO (XO (XI XH)))))))
| Xc4 -> Npos (XO (XO (XI (XO (XO (XO (XI XH)))))))
| Xc5 -> Npos (XI (XO (XI (XO (XO (XO (XI XH)))))))
| Xc6 -> Npos (XO (XI (XI (XO (XO (XO (XI XH)))))))
| Xc7 -> Npos (XI (XI (XI (XO (XO (XO (XI XH)))))))
| Xc8 -> Npos (XO (XO (XO (XI (XO (XO (XI XH)))))))
| Xc9 -> Npos (XI (XO (XO (XI (XO (XO (XI XH)))))))
| Xca -> Npos (XO (XI (XO (XI (XO (XO (XI XH)))))))
| Xcb -> Npos (XI (XI (XO (XI (XO (XO (XI XH)))))))
| Xcc -> Npos (XO (XO (XI (XI (XO (XO (XI XH)))))))
| Xcd -> Npos (XI (XO (XI (XI (XO (XO (XI XH)))))))
| Xce -> Npos (XO (XI (XI (XI (XO (XO (XI XH)))))))
| Xcf -> Npos (XI (XI (XI (XI (XO (XO (XI XH)))))))
| Xd0 -> Npos (XO (XO (XO (XO (XI (XO (XI XH)))))))
| Xd1 -> Npos (XI (XO (XO (XO (XI (XO (XI XH)))))))
| Xd2 -> Npos (XO (XI (XO (XO (XI (XO (XI XH)))))))
| Xd3 -> Npos (XI (XI (XO (XO (XI (XO (XI XH)))))))
| Xd4 -> Npos (XO (XO (XI (XO (XI (XO (XI XH)))))))
| Xd5 -> Npos (XI (XO (XI (XO (XI (XO (XI XH)))))))
| Xd6 -> Npos (XO (XI (XI (XO (XI (XO (XI XH)))))))
| Xd7 -> Npos (XI (XI (XI (XO (XI (XO (XI XH)))))))
| Xd8 -> Npos (XO (XO (XO (XI (XI (XO (XI XH)))))))
| Xd9 -> Npos (XI (XO (XO (XI (XI (XO (XI XH)))))))
| Xda -> Npos (XO (XI (XO (XI (XI (XO (XI XH)))))))
| Xdb -> Npos (XI (XI (XO (XI (XI (XO (XI XH)))))))
| Xdc -> Npos (XO (XO (XI (XI (XI (XO (XI XH)))))))
| Xdd -> Npos (XI (XO (XI (XI (XI (XO (XI XH)))))))
| Xde -> Npos (XO (XI (XI (XI (XI (XO (XI XH)))))))
| Xdf -> Npos (XI (XI (XI (XI (XI (XO (XI XH)))))))
| Xe0 -> Npos (XO (XO (XO (XO (XO (XI (XI XH)))))))
| Xe1 -> Npos (XI (XO (XO (XO (XO (XI (XI XH)))))))
| Xe2 -> Npos (XO (XI (XO (XO (XO (XI (XI XH)))))))
| Xe3 -> Npos (XI (XI (XO (XO (XO (XI (XI XH)))))))
| Xe4 -> Npos (XO (XO (XI (XO (XO (XI (XI XH)))))))
| Xe5 -> Npos (XI (XO (XI (XO (XO (XI (XI XH)))))))
| Xe6 -> Npos (XO (XI (XI (XO (XO (XI (XI XH)))))))
| Xe7 -> Npos (XI (XI (XI (XO (XO (XI (XI XH)))))))
| Xe8 -> Npos (XO (XO (XO (XI (XO (XI (XI XH)))))))
| Xe9 -> Npos (XI (XO (XO (XI (XO (XI (XI XH)))))))
| Xea -> Npos (XO (XI (XO (XI (XO (XI (XI XH)))))))
| Xeb -> Npos (XI (XI (XO (XI (XO (XI (XI XH)))))))
| Xec -> Npos (XO (XO (XI (XI (XO (XI (XI XH)))))))
| Xed -> Npos (XI (XO (XI (XI (XO (XI (XI XH)))))))
| Xee -> Npos (XO (XI (XI (XI (XO (XI (XI XH)))))))
| Xef -> Npos (XI (XI (XI (XI (XO (XI (XI XH)))))))
| Xf0 -> Npos (XO (XO (XO (XO (XI (XI (XI XH)))))))
| Xf1 -> Npos (XI (XO (XO (XO (XI (XI (XI XH)))))))
| Xf2 -> Npos (XO (XI (XO (XO (XI (XI (XI XH)))))))
| Xf3 -> Npos (XI (XI (XO (XO (XI (XI (XI XH)))))))
| Xf4 -> Npos (XO (XO (XI (XO (XI (XI (XI XH)))))))
| Xf5 -> Npos (XI (XO (XI (XO (XI (XI (XI XH)))))))
| Xf6 -> Npos (XO (XI (XI (XO (XI (XI (XI XH)))))))
| Xf7 -> Npos (XI (XI (XI (XO (XI (XI (XI XH)))))))
| Xf8 -> Npos (XO (XO (XO (XI (XI (XI (XI XH)))))))
| Xf9 -> Npos (XI (XO (XO (XI (XI (XI (XI XH)))))))
| Xfa -> Npos (XO (XI (XO (XI (XI (XI (XI XH)))))))
| Xfb -> Npos (XI (XI (XO (XI (XI (XI (XI XH)))))))
| Xfc -> Npos (XO (XO (XI (XI (XI (XI (XI XH)))))))
| Xfd -> Npos (XI (XO (XI (XI (XI (XI (XI XH)))))))
| Xfe -> Npos (XO (XI (XI (XI (XI (XI (XI XH)))))))
| Xff -> Npos (XI (XI (XI (XI (XI (XI (XI XH)))))))

(** val of_N : n -> byte option **)

let of_N = function
| N0 -> Some X00
| Npos p ->
  (match p with
   | XI p0 ->
     (match p0 with
      | XI p1 ->
        (match p1 with
         | XI p2 ->
           (match p2 with
            | XI p3 ->
              (match p3 with
               | XI p4 ->
                 (match p4 with
                  | XI p5 ->
                    (match p5 with
                     | XI p6 -> (match p6 with
                                 | XH -> Some Xff
                                 | _ -> None)
                     | XO p6 -> (match p6 with
                                 | XH -> Some Xbf
                                 | _ -> None)
                     | XH -> Some X7f)
                  | XO p5 ->
                    (match p5 with
                     | XI p6 -> (match p6 with
                                 | XH -> Some Xdf
                                 | _ -> None)
                     | XO p6 -> (match p6 with
                                 | XH -> Some X9f
                                 | _ -> None)
                     | XH -> Some X5f)
                  | XH -> Some X3f)
               | XO p4 ->
                 (match p4 with
                  | XI p5 ->
                    (match p5 with
                     | XI p6 -> (match p6 with
                                 | XH -> Some Xef
                                 | _ -> None)
                     | XO p6 -> (match p6 with
                                 | XH -> Some Xaf
                                 | _ -> None)
                     | XH -> Some X6f)
                  | XO p5 ->
                    (match p5 with
                     | XI p6 -> (match p6 with
                                 | XH -> Some Xcf
                                 | _ -> None)
                     | XO p6 -> (match p6 with
                                 | XH -> Some X8f
                                 | _ -> None)
                     | XH -> Some X4f)
                  | XH -> Some X2f)
               | XH -> Some X1f)
            | XO p3 ->
              (match p3 with
               | XI p4 ->
                 (match p4 with
                  | XI p5 ->
                    (match p5 with
                     | XI p6 -> (match p6 with
                                 | XH -> Some Xf7
                                 | _ -> None)
                     | XO p6 -> (match p6 with
                                 | XH -> Some Xb7
                                 | _ -> None)
                     | XH -> Some X77)
                  | XO p5 ->
                    (match p5 with
                     | XI p6 -> (match p6 with
                                 | XH -> Some Xd7
                                 | _ -> None)
                     | XO p6 -> (match p6 with
                                 | XH -> Some X97
                                 | _ -> None)
                     | XH -> Some X57)
                  | XH -> Some X37)
               | XO p4 ->
                 (match p4 with
                  | XI p5 ->
                    (match p5 with
                     | XI p6 -> (match p6 with
                                 | XH -> Some Xe7
                                 | _ -> None)
                     | XO p6 -> (match p6 with
                                 | XH -> Some Xa7
                                 | _ -> None)
                     | XH -> Some X67)
                  | XO p5 ->
                    (match p5 with
                     | XI p6 -> (match p6 with
                                 | XH -> Some Xc7
                                 | _ -> None)
                     | XO p6 -> (match p6 with
                                 | XH -> Some X87
                                 | _ -> None)
                     | XH -> Some X47)
                  | XH -> Some X27)
               | XH -> Some X17)
            | XH -> Some X0f)
         | XO p2 ->
           (match p2 with
            | XI p3 ->
              (match p3 with
               | XI p4 ->
                 (match p4 with
                  | XI p5 ->
                    (match p5 with
                     | XI p6 -> (match p6 with
                                 | XH -> Some Xfb
                                 | _ -> None)
                     | XO p6 -> (match p6 with
                                 | XH -> Some Xbb
                                 | _ -> None)
                     | XH -> Some X7b)
                  | XO p5 ->
                    (match p5 with
                     | XI p6 -> (match p6 with
                                 | XH -> Some Xdb
                                 | _ -> None)
                     | XO p6 -> (match p6 with
                                 | XH -> Some X9b
                                 | _ -> None)
                     | XH -> Some X5b)
                  | XH -> Some X3b)
               | XO p4 ->
                 (match p4 with
                  | XI p5 ->
                    (match p5 with
                     | XI p6 -> (match p6 with
                                 | XH -> Some Xeb
                                 | _ -> None)
                     | XO p6 -> (match p6 with
                                 | XH -> Some Xab
                                 | _ -> None)
                     | XH -> Some X6b)
                  | XO p5 ->
                    (match p5 with
                     | XI p6 -> (match p6 with
                                 | XH -> Some Xcb
                                 | _ -> None)
                     | XO p6 -> (match p6 with
                                 | XH -> Some X8b
                                 | _ -> None)
                     | XH -> Some X4b)
                  | XH -> Some X2b)
               | XH -> Some X1b)
            | XO p3 ->
              (match p3 with
               | XI p4 ->
                 (match p4 with
                  | XI p5 ->
                    (match p5 with
                     | XI p6 -> (match p6 with
                                 | XH -> Some Xf3
                                 | _ -> None)
                     | XO p6 -> (match p6 with
                                 | XH -> Some Xb3
                                 | _ -> None)
                     | XH -> Some X73)
                  | XO p5 ->
                    (match p5 with
                     | XI p6 -> (match p6 with
                                 | XH -> Some Xd3
                                 | _ -> None)
                     | XO p6 -> (match p6 with
                                 | XH -> Some X93
                                 | _ -> None)
                     | XH -> Some X53)
                  | XH -> Some X33)
               | XO p4 ->
                 (match p4 with
                  | XI p5 ->
                    (match p5 with
                     | XI p6 -> (match p6 with
                                 | XH -> Some Xe3
                                 | _ -> None)
                     | XO p6 -> (match p6 with
                                 | XH -> Some Xa3
                                 | _ -> None)
                     | XH -> Some X63)
                  | XO p5 ->
                    (match p5 with
                     | XI p6 -> (match p6 with
                                 | XH -> Some Xc3
                                 | _ -> None)
                     | XO p6 -> (match p6 with
                                 | XH -> Some X83
                                 | _ -> None)
                     | XH -> Some X43)
                  | XH -> Some X23)
               | XH -> Some X13)
            | XH -> Some X0b)
         | XH -> Some X07)
      | XO p1 ->
        (match p1 with
         | XI p2 ->
           (match p2 with
            | XI p3 ->
              (match p3 with
               | XI p4 ->
                 (match p4 with
                  | XI p5 ->
                    (match p5 with
                     | XI p6 -> (match p6 with
                                 | XH -> Some Xfd
                                 | _ -> None)
                     | XO p6 -> (match p6 with
                                 | XH -> Some Xbd
                                 | _ -> None)
                     | XH -> Some X7d)
                  | XO p5 ->
                    (match p5 with
                     | XI p6 -> (match p6 with
                                 | XH -> Some Xdd
                                 | _ -> None)
                     | XO p6 -> (match p6 with
                                 | XH -> Some X9d
                                 | _ -> None)
                     | XH -> Some X5d)
                  | XH -> Some X3d)
               | XO p4 ->
                 (match p4 with
                  | XI p5 ->
                    (match p5 with
                     | XI p6 -> (match p6 with
                                 | XH -> Some Xed
                                 | _ -> None)
                     | XO p6 -> (match p6 with
                                 | XH -> Some Xad
                                 | _ -> None)
                     | XH -> Some X6d)
                  | XO p5 ->
                    (match p5 with
                     | XI p6 -> (match p6 with
                                 | XH -> Some Xcd
                                 | _ -> None)
                     | XO p6 -> (match p6 with
                                 | XH -> Some X8d
                                 | _ -> None)
                     | XH -> Some X4d)
                  | XH -> Some X2d)
               | XH -> Some X1d)
            | XO p3 ->
              (match p3 with
               | XI p4 ->
                 (match p4 with
                  | XI p5 ->
                    (match p5 with
                     | XI p6 -> (match p6 with
                                 | XH -> Some Xf5
                                 | _ -> None)
                     | XO p6 -> (match p6 with
                                 | XH -> Some Xb5
                                 | _ -> None)
                     | XH -> Some X75)
                  | XO p5 ->
                    (match p5 with
                     | XI p6 -> (match p6 with
                                 | XH -> Some Xd5
                                 | _ -> None)
                     | XO p6 -> (match p6 with
                                 | XH -> Some X95
                                 | _ -> None)
                     | XH -> Some X55)
                  | XH -> Some X35)
               | XO p4 ->
                 (match p4 with
                  | XI p5 ->
                    (match p5 with
                     | XI p6 -> (match p6 with
                                 | XH -> Some Xe5
                                 | _ -> None)
                     | XO p6 -> (match p6 with
                                 | XH -> Some Xa5
                                 | _ -> None)
                     | XH -> Some X65)
                  | XO p5 ->
                    (match p5 with
                     | XI p6 -> (match p6 with
                                 | XH -> Some Xc5
                                 | _ -> None)
                     | XO p6 -> (match p6 with
                                 | XH -> Some X85
                                 | _ -> None)
                     | XH -> Some X45)
                  | XH -> Some X25)
               | XH -> Some X15)
            | XH -> Some X0d)
         | XO p2 ->
           (match p2 with
            | XI p3 ->
              (match p3 with
               | XI p4 ->
                 (match p4 with
                  | XI p5 ->
                    (match p5 with
                     | XI p6 -> (match p6 with
                                 | XH -> Some Xf9
                                 | _ -> None)
                     | XO p6 -> (match p6 with
                                 | XH -> Some Xb9
                                 | _ -> None)
                     | XH -> Some X79)
                  | XO p5 ->
                    (match p5 with
                     | XI p6 -> (match p6 with
                                 | XH -> Some Xd9
                                 | _ -> None)
                     | XO p6 -> (match p6 with
                                 | XH -> Some X99
                                 | _ -> None)
                     | XH -> Some X59)
                  | XH -> Some X39)
               | XO p4 ->
                 (match p4 with
                  | XI p5 ->
                    (match p5 with
                     | XI p6 -> (match p6 with
                                 | XH -> Some Xe9
                                 | _ -> None)
                     | XO p6 -> (match p6 with
                                 | XH -> Some Xa9
                                 | _ -> None)
                     | XH -> Some X69)
                  | XO p5 ->
                    (match p5 with
                     | XI p6 -> (match p6 with
                                 | XH -> Some Xc9
                                 | _ -> None)
                     | XO p6 -> (match p6 with
                                 | XH -> Some X89
                                 | _ -> None)
                     | XH -> Some X49)
                  | XH -> Some X29)
               | XH -> Some X19)
            | XO p3 ->
              (match p3 with
               | XI p4 ->
                 (match p4 with
                  | XI p5 ->
                    (match p5 with
                     | XI p6 -> (match p6 with
                                 | XH -> Some Xf1
                                 | _ -> None)
                     | XO p6 -> (match p6 with
                                 | XH -> Some Xb1
                                 | _ -> None)
                     | XH -> Some X71)
                  | XO p5 ->
                    (match p5 with
                     | XI p6 -> (match p6 with
                                 | XH -> Some Xd1
                                 | _ -> None)
                     | XO p6 -> (match p6 with
                                 | XH -> Some X91
                                 | _ -> None)
                     | XH -> Some X51)
                  | XH -> Some X31)
               | XO p4 ->
                 (match p4 with
                  | XI p5 ->
                    (match p5 with
                     | XI p6 -> (match p6 with
                                 | XH -> Some Xe1
                                 | _ -> None)
                     | XO p6 -> (match p6 with
                                 | XH -> Some Xa1
                                 | _ -> None)
                     | XH -> Some X61)
                  | XO p5 ->
                    (match p5 with
                     | XI p6 -> (match p6 with
                                 | XH -> Some Xc1
                                 | _ -> None)
                     | XO p6 -> (match p6 with
                                 | XH -> Some X81
                                 | _ -> None)
                     | XH -> Some X41)
                  | XH -> Some X21)
               | XH -> Some X11)
            | XH -> Some X09)
         | XH -> Some X05)
      | XH -> Some X03)
   | XO p0 ->
     (match p0 with
      | XI p1 ->
        (match p1 with
         | XI p2 ->
           (match p2 with
            | XI p3 ->
              (match p3 with
               | XI p4 ->
                 (match p4 with
                  | XI p5 ->
                    (match p5 with
                     | XI p6 -> (match p6 with
                                 | XH -> Some Xfe
                                 | _ -> None)
                     | XO p6 -> (match p6 with
                                 | XH -> Some Xbe
                                 | _ -> None)
                     | XH -> Some X7e)
                  | XO p5 ->
                    (match p5 with
                     | XI p6 -> (match p6 with
                                 | XH -> Some Xde
                                 | _ -> None)
                     | XO p6 -> (match p6 with
                                 | XH -> Some X9e
                                 | _ -> None)
                     | XH -> Some X5e)
                  | XH -> Some X3e)
               | XO p4 ->
                 (match p4 with
                  | XI p5 ->
                    (match p5 with
                     | XI p6 -> (match p6 with
                                 | XH -> Some Xee
                                 | _ -> None)
                     | XO p6 -> (match p6 with
                                 | XH -> Some Xae
                                 | _ -> None)
                     | XH -> Some X6e)
                  | XO p5 ->
                    (match p5 with
                     | XI p6 -> (match p6 with
                                 | XH -> Some Xce
                                 | _ -> None)
                     | XO p6 -> (match p6 with
                                 | XH -> Some X8e
                                 | _ -> None)
                     | XH -> Some X4e)
                  | XH -> Some X2e)
               | XH -> Some X1e)
            | XO p3 ->
              (match p3 with
               | XI p4 ->
                 (match p4 with
                  | XI p5 ->
                    (match p5 with
                     | XI p6 -> (match p6 with
                                 | XH -> Some Xf6
                                 | _ -> None)
                     | XO p6 -> (match p6 with
                                 | XH -> Some Xb6
                                 | _ -> None)
                     | XH -> Some X76)
                  | XO p5 ->
                    (match p5 with
                     | XI p6 -> (match p6 with
                                 | XH -> Some Xd6
                                 | _ -> None)
                     | XO p6 -> (match p6 with
                                 | XH -> Some X96
                                 | _ -> None)
                     | XH -> Some X56)
                  | XH -> Some X36)
               | XO p4 ->
                 (match p4 with
                  | XI p5 ->
                    (match p5 with
                     | XI p6 -> (match p6 with
                                 | XH -> Some Xe6
                                 | _ -> None)
                     | XO p6 -> (match p6 with
                                 | XH -> Some Xa6
                                 | _ -> None)
                     | XH -> Some X66)
                  | XO p5 ->
                    (match p5 with
                     | XI p6 -> (match p6 with
                                 | XH -> Some Xc6
                                 | _ -> None)
                     | XO p6 -> (match p6 with
                                 | XH -> Some X86
                                 | _ -> None)
                     | XH -> Some X46)
                  | XH -> Some X26)
               | XH -> Some X16)
            | XH -> Some X0e)
         | XO p2 ->
           (match p2 with
            | XI p3 ->
              (match p3 with
               | XI p4 ->
                 (match p4 with
                  | XI p5 ->
                    (match p5 with
                     | XI p6 -> (match p6 with
                                 | XH -> Some Xfa
                                 | _ -> None)
                     | XO p6 -> (match p6 with
                                 | XH -> Some Xba
                                 | _ -> None)
                     | XH -> Some X7a)
                  | XO p5 ->
                    (match p5 with
                     | XI p6 -> (match p6 with
                                 | XH -> Some Xda
                                 | _ -> None)
                     | XO p6 -> (match p6 with
                                 | XH -> Some X9a
                                 | _ -> None)
                     | XH -> Some X5a)
                  | XH -> Some X3a)
               | XO p4 ->
                 (match p4 with
                  | XI p5 ->
                    (match p5 with
                     | XI p6 -> (match p6 with
                                 | XH -> Some Xea
                                 | _ -> None)
                     | XO p6 -> (match p6 with
                                 | XH -> Some Xaa
                                 | _ -> None)
                     | XH -> Some X6a)
                  | XO p5 ->
                    (match p5 with
                     | XI p6 -> (match p6 with
                                 | XH -> Some Xca
                                 | _ -> None)
                     | XO p6 -> (match p6 with
                                 | XH -> Some X8a
                                 | _ -> None)
                     | XH -> Some X4a)
                  | XH -> Some X2a)
               | XH -> Some X1a)
            | XO p3 ->
              (match p3 with
               | XI p4 ->
                 (match p4 with
                  | XI p5 ->
                    (match p5 with
                     | XI p6 -> (match p6 with
                                 | XH -> Some Xf2
                                 | _ -> None)
                     | XO p6 -> (match p6 with
                                 | XH -> Some Xb2
                                 | _ -> None)
                     | XH -> Some X72)
                  | XO p5 ->
                    (match p5 with
                     | XI p6 -> (match p6 with
                                 | XH -> Some Xd2
                                 | _ -> None)
                     | XO p6 -> (match p6 with
                                 | XH -> Some X92
                                 | _ -> None)
                     | XH -> Some X52)
                  | XH -> Some X32)
               | XO p4 ->
                 (match p4 with
                  | XI p5 ->
                    (match p5 with
                     | XI p6 -> (match p6 with
                                 | XH -> Some Xe2
                                 | _ -> None)
                     | XO p6 -> (match p6 with
                                 | XH -> Some Xa2
                                 | _ -> None)
                     | XH -> Some X62)
                  | XO p5 ->
                    (match p5 with
                     | XI p6 -> (match p6 with
                                 | XH -> Some Xc2
                                 | _ -> None)
                     | XO p6 -> (match p6 with
                                 | XH -> Some X82
                                 | _ -> None)
                     | XH -> Some X42)
                  | XH -> Some X22)
               | XH -> Some X12)
            | XH -> Some X0a)
         | XH -> Some X06)
      | XO p1 ->
        (match p1 with
         | XI p2 ->
           (match p2 with
            | XI p3 ->
              (match p3 with
               | XI p4 ->
                 (match p4 with
                  | XI p5 ->
                    (match p5 with
                     | XI p6 -> (match p6 with
                                 | XH -> Some Xfc
                                 | _ -> None)
                     | XO p6 -> (match p6 with
                                 | XH -> Some Xbc
                                 | _ -> None)
                     | XH -> Some X7c)
                  | XO p5 ->
                    (match p5 with
                     | XI p6 -> (match p6 with
                                 | XH -> Some Xdc
                                 | _ -> None)
                     | XO p6 -> (match p6 with
                                 | XH -> Some X9c
                                 | _ -> None)
                     | XH -> Some X5c)
                  | XH -> Some X3c)
               | XO p4 ->
                 (match p4 with
                  | XI p5 ->
                    (match p5 with
                     | XI p6 -> (match p6 with
                                 | XH -> Some Xec
                                 | _ -> None)
                     | XO p6 -> (match p6 with
                                 | XH -> Some Xac
                                 | _ -> None)
                     | XH -> Some X6c)
                  | XO p5 ->
                    (match p5 with
                     | XI p6 -> (match p6 with
                                 | XH -> Some Xcc
                                 | _ -> None)
                     | XO p6 -> (match p6 with
                                 | XH -> Some X8c
                                 | _ -> None)
                     | XH -> Some X4c)
                  | XH -> Some X2c)
               | XH -> Some X1c)
            | XO p3 ->
              (match p3 with
               | XI p4 ->
                 (match p4 with
                  | XI p5 ->
                    (match p5 with
                     | XI p6 -> (match p6 with
                                 | XH -> Some Xf4
                                 | _ -> None)
                     | XO p6 -> (match p6 with
                                 | XH -> Some Xb4
                                 | _ -> None)
                     | XH -> Some X74)
                  | XO p5 ->
                    (match p5 with
                     | XI p6 -> (match p6 with
                                 | XH -> Some Xd4
                                 | _ -> None)
                     | XO p6 -> (match p6 with
                                 | XH -> Some X94
                                 | _ -> None)
                     | XH -> Some X54)
                  | XH -> Some X34)
               | XO p4 ->
                 (match p4 with
                  | XI p5 ->
                    (match p5 with
                     | XI p6 -> (match p6 with
                                 | XH -> Some Xe4
                                 | _ -> None)
                     | XO p6 -> (match p6 with
                                 | XH -> Some Xa4
                                 | _ -> None)
                     | XH -> Some X64)
                  | XO p5 ->
                    (match p5 with
                     | XI p6 -> (match p6 with
                                 | XH -> Some Xc4
                                 | _ -> None)
                     | XO p6 -> (match p6 with
                                 | XH -> Some X84
                                 | _ -> None)
                     | XH -> Some X44)
                  | XH -> Some X24)
               | XH -> Some X14)
            | XH -> Some X0c)
         | XO p2 ->
           (match p2 with
            | XI p3 ->
              (match p3 with
               | XI p4 ->
                 (match p4 with
                  | XI p5 ->
                    (match p5 with
                     | XI p6 -> (match p6 with
                                 | XH -> Some Xf8
                                 | _ -> None)
                     | XO p6 -> (match p6 with
                                 | XH -> Some Xb8
                                 | _ -> None)
                     | XH -> Some X78)
                  | XO p5 ->
                    (match p5 with
                     | XI p6 -> (match p6 with
                                 | XH -> Some Xd8
                                 | _ -> None)
                     | XO p6 -> (match p6 with
                                 | XH -> Some X98
                                 | _ -> None)
                     | XH -> Some X58)
                  | XH -> Some X38)
               | XO p4 ->
                 (match p4 with
                  | XI p5 ->
                    (match p5 with
                     | XI p6 -> (match p6 with
                                 | XH -> Some Xe8
                                 | _ -> None)
                     | XO p6 -> (match p6 with
                                 | XH -> Some Xa8
                                 | _ -> None)
                     | XH -> Some X68)
                  | XO p5 ->
                    (match p5 with
                     | XI p6 -> (match p6 with
                                 | XH -> Some Xc8
                                 | _ -> None)
                     | XO p6 -> (match p6 with
                                 | XH -> Some X88
                                 | _ -> None)
                     | XH -> Some X48)
                  | XH -> Some X28)
               | XH -> Some X18)
            | XO p3 ->
              (match p3 with
               | XI p4 ->
                 (match p4 with
                  | XI p5 ->
                    (match p5 with
                     | XI p6 -> (match p6 with
                                 | XH -> Some Xf0
                                 | _ -> None)
                     | XO p6 -> (match p6 with
                                 | XH -> Some Xb0
                                 | _ -> None)
                     | XH -> Some X70)
                  | XO p5 ->
                    (match p5 with
                     | XI p6 -> (match p6 with
                                 | XH -> Some Xd0
                                 | _ -> None)
                     | XO p6 -> (match p6 with
                                 | XH -> Some X90
                                 | _ -> None)
                     | XH -> Some X50)
                  | XH -> Some X30)
               | XO p4 ->
                 (match p4 with
                  | XI p5 ->
                    (match p5 with
                     | XI p6 -> (match p6 with
                                 | XH -> Some Xe0
                                 | _ -> None)
                     | XO p6 -> (match p6 with
                                 | XH -> Some Xa0
                                 | _ -> None)
                     | XH -> Some X60)
                  | XO p5 ->
                    (match p5 with
                     | XI p6 -> (match p6 with
                                 | XH -> Some Xc0
                                 | _ -> None)
                     | XO p6 -> (match p6 with
                                 | XH -> Some X80
                                 | _ -> None)
                     | XH -> Some X40)
                  | XH -> Some X20)
               | XH -> Some X10)
            | XH -> Some X08)
         | XH -> Some X04)
      | XH -> Some X02)
   | XH -> Some X01)

module Z =
 struct
  (** val double : z -> z **)

  let double = function
  | Z0 -> Z0
  | Zpos p -> Zpos (XO p)
  | Zneg p -> Zneg (XO p)

  (** val succ_double : z -> z **)

  let succ_double = function
  | Z0 -> Zpos XH
  | Zpos p -> Zpos (XI p)
  | Zneg p -> Zneg (Coq_Pos.pred_double p)

  (** val pred_double : z -> z **)

  let pred_double = function
  | Z0 -> Zneg XH
  | Zpos p -> Zpos (Coq_Pos.pred_double p)
  | Zneg p -> Zneg (XI p)

  (** val pos_sub : positive -> positive -> z **)

  let rec pos_sub x y =
    match x with
    | XI p ->
      (match y with
       | XI q -> double (pos_sub p q)
       | XO q -> succ_double (pos_sub p q)
       | XH -> Zpos (XO p))
    | XO p ->
      (match y with
       | XI q -> pred_double (pos_sub p q)
       | XO q -> double (pos_sub p q)
       | XH -> Zpos (Coq_Pos.pred_double p))
    | XH ->
      (match y with
       | XI q -> Zneg (XO q)
       | XO q -> Zneg (Coq_Pos.pred_double q)
       | XH -> Z0)

  (** val add : z -> z -> z **)

  let add x y =
    match x with
    | Z0 -> y
    | Zpos x' ->
      (match y with
       | Z0 -> x
       | Zpos y' -> Zpos (Coq_Pos.add x' y')
       | Zneg y' -> pos_sub x' y')
    | Zneg x' ->
      (match y with
       | Z0 -> x
       | Zpos y' -> pos_sub y' x'
       | Zneg y' -> Zneg (Coq_Pos.add x' y'))

  (** val opp : z -> z **)

  let opp = function
  | Z0 -> Z0
  | Zpos x0 -> Zneg x0
  | Zneg x0 -> Zpos x0

  (** val sub : z -> z -> z **)

  let sub m n0 =
    add m (opp n0)

  (** val compare : z -> z -> comparison **)

  let compare x y =
    match x with
    | Z0 -> (match y with
             | Z0 -> Eq
             | Zpos _ -> Lt
             | Zneg _ -> Gt)
    | Zpos x' -> (match y with
                  | Zpos y' -> Coq_Pos.compare x' y'
                  | _ -> Gt)
    | Zneg x' ->
      (match y with
       | Zneg y' -> compOpp (Coq_Pos.compare x' y')
       | _ -> Lt)

  (** val leb : z -> z -> bool **)

  let leb x y =
    match compare x y with
    | Gt -> false
    | _ -> true

  (** val to_N : z -> n **)

  let to_N = function
  | Zpos p -> Npos p
  | _ -> N0

  (** val of_N : n -> z **)

  let of_N = function
  | N0 -> Z0
  | Npos p -> Zpos p
 end

type bytes = byte list

(** val byte_of_N : n -> byte **)

let byte_of_N n0 =
  match of_N n0 with
  | Some b -> b
  | None -> X00

(** val n_of_byte : byte -> n **)

let n_of_byte =
  to_N

type item =
| Null
| Scalar of bytes
| Lst of item list
| Map of (bytes * item) list

(** val byte_eqb : byte -> byte -> bool **)

let byte_eqb a b =
  N.eqb (to_N a) (to_N b)

(** val bytes_eqb : bytes -> bytes -> bool **)

let rec bytes_eqb a b =
  match a with
  | [] -> (match b with
           | [] -> true
           | _ :: _ -> false)
  | x :: a' ->
    (match b with
     | [] -> false
     | y :: b' -> (&&) (byte_eqb x y) (bytes_eqb a' b'))

(** val bytes_cmp : bytes -> bytes -> comparison **)

let rec bytes_cmp a b =
  match a with
  | [] -> (match b with
           | [] -> Eq
           | _ :: _ -> Lt)
  | x :: a' ->
    (match b with
     | [] -> Gt
     | y :: b' ->
       (match N.compare (to_N x) (to_N y) with
        | Eq -> bytes_cmp a' b'
        | x0 -> x0))

(** val map_get : (bytes * item) list -> bytes -> item **)

let rec map_get m k =
  match m with
  | [] -> Null
  | p :: r -> let (k', v) = p in if bytes_eqb k k' then v else map_get r k

(** val map_set :
    (bytes * item) list -> bytes -> item -> (bytes * item) list **)

let rec map_set m k v =
  match m with
  | [] -> (k, v) :: []
  | p :: r ->
    let (k', v') = p in
    (match bytes_cmp k k' with
     | Eq -> (k, v) :: r
     | Lt -> (k, v) :: m
     | Gt -> (k', v') :: (map_set r k v))

(** val get_at : item list -> nat -> item **)

let get_at l i =
  nth i l Null

(** val resize : item list -> nat -> item list **)

let resize l n0 =
  app (firstn n0 l) (repeat Null (sub n0 (length l)))

(** val set_at : item list -> nat -> item -> item list **)

let set_at l i v =
  let l' = if leb (length l) i then resize l (S i) else l in
  app (firstn i l') (v :: (skipn (S i) l'))

(** val insert_at : item list -> nat -> item -> item list **)

let insert_at l i v =
  let l' = if ltb (length l) i then resize l i else l in
  app (firstn i l') (v :: (skipn i l'))

(** val is_null : item -> bool **)

let is_null = function
| Null -> true
| _ -> false

(** val prune : item -> item **)

let rec prune = function
| Lst l ->
  Lst
    (let rec go = function
     | [] -> []
     | x :: r -> if is_null x then go r else (prune x) :: (go r)
     in go l)
| Map m ->
  Map
    (let rec go = function
     | [] -> []
     | p :: r ->
       let (k, x) = p in if is_null x then go r else (k, (prune x)) :: (go r)
     in go m)
| x -> x

(** val item_eqb : item -> item -> bool **)

let rec item_eqb a b =
  match a with
  | Null -> (match b with
             | Null -> true
             | _ -> false)
  | Scalar x -> (match b with
                 | Scalar y -> bytes_eqb x y
                 | _ -> false)
  | Lst x ->
    (match b with
     | Lst y ->
       let rec go x0 y0 =
         match x0 with
         | [] -> (match y0 with
                  | [] -> true
                  | _ :: _ -> false)
         | p :: x' ->
           (match y0 with
            | [] -> false
            | q :: y' -> (&&) (item_eqb p q) (go x' y'))
       in go x y
     | _ -> false)
  | Map x ->
    (match b with
     | Map y ->
       let rec go x0 y0 =
         match x0 with
         | [] -> (match y0 with
                  | [] -> true
                  | _ :: _ -> false)
         | p0 :: x' ->
           let (k, p) = p0 in
           (match y0 with
            | [] -> false
            | p1 :: y' ->
              let (k', q) = p1 in
              (&&) ((&&) (bytes_eqb k k') (item_eqb p q)) (go x' y'))
       in go x y
     | _ -> false)

(** val bN : byte -> n **)

let bN =
  to_N

(** val is_digit : byte -> bool **)

let is_digit b =
  (&&) (N.leb (Npos (XO (XO (XO (XO (XI XH)))))) (bN b))
    (N.leb (bN b) (Npos (XI (XO (XO (XI (XI XH)))))))

(** val is_alpha : byte -> bool **)

let is_alpha b =
  (||)
    ((&&) (N.leb (Npos (XI (XO (XO (XO (XO (XO XH))))))) (bN b))
      (N.leb (bN b) (Npos (XO (XI (XO (XI (XI (XO XH)))))))))
    ((&&) (N.leb (Npos (XI (XO (XO (XO (XO (XI XH))))))) (bN b))
      (N.leb (bN b) (Npos (XO (XI (XO (XI (XI (XI XH)))))))))

(** val is_alnum : byte -> bool **)

let is_alnum b =
  (||) (is_digit b) (is_alpha b)

(** val is_space : byte -> bool **)

let is_space b =
  (||) (N.eqb (bN b) (Npos (XO (XO (XO (XO (XO XH)))))))
    ((&&) (N.leb (Npos (XI (XO (XO XH)))) (bN b))
      (N.leb (bN b) (Npos (XI (XO (XI XH))))))

(** val slash : byte **)

let slash =
  X2f

(** val at_sign : byte **)

let at_sign =
  X40

(** val drop_slashes : bytes -> bytes **)

let rec drop_slashes p = match p with
| [] -> []
| c :: r -> if byte_eqb c slash then drop_slashes r else p

(** val split_on_slash : bytes -> bytes -> bytes list **)

let rec split_on_slash cur = function
| [] -> (rev cur) :: []
| c :: r ->
  if byte_eqb c slash
  then (rev cur) :: (split_on_slash [] r)
  else split_on_slash (c :: cur) r

(** val split_path : bytes -> bytes list **)

let split_path p =
  split_on_slash [] (drop_slashes p)

(** val is_root_path : bytes -> bool **)

let is_root_path = function
| [] -> true
| c :: l -> (match l with
             | [] -> byte_eqb c slash
             | _ :: _ -> false)

(** val path_keys : bytes -> bytes list **)

let path_keys p =
  if is_root_path p then [] else split_path p

(** val is_list_ref : bytes -> bool **)

let is_list_ref = function
| [] -> false
| a :: l ->
  (match l with
   | [] -> false
   | b :: _ -> (&&) (byte_eqb a at_sign) (is_alnum b))

(** val starts_with : bytes -> bytes -> bool **)

let rec starts_with pre s =
  match pre with
  | [] -> true
  | x :: pre' ->
    (match s with
     | [] -> false
     | y :: s' -> (&&) (byte_eqb x y) (starts_with pre' s'))

(** val skip_spaces : bytes -> bytes **)

let rec skip_spaces l = match l with
| [] -> []
| c :: r -> if is_space c then skip_spaces r else l

(** val digits_val : n -> bytes -> n **)

let rec digits_val acc = function
| [] -> acc
| c :: r ->
  if is_digit c
  then digits_val
         (N.add (N.mul acc (Npos (XO (XI (XO XH)))))
           (N.sub (bN c) (Npos (XO (XO (XO (XO (XI XH)))))))) r
  else acc

(** val two64 : n **)

let two64 =
  Npos (XO (XO (XO (XO (XO (XO (XO (XO (XO (XO (XO (XO (XO (XO (XO (XO (XO
    (XO (XO (XO (XO (XO (XO (XO (XO (XO (XO (XO (XO (XO (XO (XO (XO (XO (XO
    (XO (XO (XO (XO (XO (XO (XO (XO (XO (XO (XO (XO (XO (XO (XO (XO (XO (XO
    (XO (XO (XO (XO (XO (XO (XO (XO (XO (XO (XO
    XH))))))))))))))))))))))))))))))))))))))))))))))))))))))))))))))))

(** val two32 : n **)

let two32 =
  Npos (XO (XO (XO (XO (XO (XO (XO (XO (XO (XO (XO (XO (XO (XO (XO (XO (XO
    (XO (XO (XO (XO (XO (XO (XO (XO (XO (XO (XO (XO (XO (XO (XO
    XH))))))))))))))))))))))))))))))))

(** val strtoul10 : bytes -> n **)

let strtoul10 l =
  let l1 = skip_spaces l in
  (match l1 with
   | [] ->
     let neg = false in
     let v = digits_val N0 l1 in
     if N.leb two64 v
     then N.sub two64 (Npos XH)
     else if neg then N.modulo (N.sub two64 v) two64 else v
   | c :: r ->
     if byte_eqb c X2d
     then let neg = true in
          let v = digits_val N0 r in
          if N.leb two64 v
          then N.sub two64 (Npos XH)
          else if neg then N.modulo (N.sub two64 v) two64 else v
     else if byte_eqb c X2b
          then let neg = false in
               let v = digits_val N0 r in
               if N.leb two64 v
               then N.sub two64 (Npos XH)
               else if neg then N.modulo (N.sub two64 v) two64 else v
          else let neg = false in
               let v = digits_val N0 l1 in
               if N.leb two64 v
               then N.sub two64 (Npos XH)
               else if neg then N.modulo (N.sub two64 v) two64 else v)

type ref_base =
| BPlain
| BNext
| BBefore
| BAfter

type refspec = { rs_base : ref_base; rs_last : bool; rs_num : n }

(** val parse_ref : bytes -> refspec **)

let parse_ref k =
  let r = skipn (S O) k in
  if starts_with (X6e :: (X65 :: (X78 :: (X74 :: [])))) r
  then let b = BNext in
       let r1 = skipn (S (S (S (S O)))) r in
       let r2 =
         match r1 with
         | [] -> r1
         | c :: r' -> if byte_eqb c X20 then r' else r1
       in
       if starts_with (X6c :: (X61 :: (X73 :: (X74 :: [])))) r2
       then { rs_base = b; rs_last = true; rs_num = N0 }
       else { rs_base = b; rs_last = false; rs_num = (strtoul10 r2) }
  else if starts_with
            (X62 :: (X65 :: (X66 :: (X6f :: (X72 :: (X65 :: [])))))) r
       then let b = BBefore in
            let r1 = skipn (S (S (S (S (S (S O)))))) r in
            let r2 =
              match r1 with
              | [] -> r1
              | c :: r' -> if byte_eqb c X20 then r' else r1
            in
            if starts_with (X6c :: (X61 :: (X73 :: (X74 :: [])))) r2
            then { rs_base = b; rs_last = true; rs_num = N0 }
            else { rs_base = b; rs_last = false; rs_num = (strtoul10 r2) }
       else if starts_with (X61 :: (X66 :: (X74 :: (X65 :: (X72 :: []))))) r
            then let b = BAfter in
                 let r1 = skipn (S (S (S (S (S O))))) r in
                 let r2 =
                   match r1 with
                   | [] -> r1
                   | c :: r' -> if byte_eqb c X20 then r' else r1
                 in
                 if starts_with (X6c :: (X61 :: (X73 :: (X74 :: [])))) r2
                 then { rs_base = b; rs_last = true; rs_num = N0 }
                 else { rs_base = b; rs_last = false; rs_num =
                        (strtoul10 r2) }
            else let b = BPlain in
                 let r2 =
                   match r with
                   | [] -> r
                   | c :: r' -> if byte_eqb c X20 then r' else r
                 in
                 if starts_with (X6c :: (X61 :: (X73 :: (X74 :: [])))) r2
                 then { rs_base = b; rs_last = true; rs_num = N0 }
                 else { rs_base = b; rs_last = false; rs_num =
                        (strtoul10 r2) }

(** val u32 : n -> n **)

let u32 n0 =
  N.modulo n0 two32

(** val index_of : refspec -> n -> n **)

let index_of rs size0 =
  let i0 =
    match rs.rs_base with
    | BNext -> u32 size0
    | BAfter -> Npos XH
    | _ -> N0
  in
  if rs.rs_last
  then let i1 = u32 (N.add i0 size0) in
       if N.eqb i1 N0 then N0 else N.sub i1 (Npos XH)
  else u32 (N.add i0 rs.rs_num)

(** val inserts : refspec -> bool **)

let inserts rs =
  match rs.rs_base with
  | BPlain -> false
  | BNext -> false
  | _ -> true

(** val resolve_index : item list -> bytes -> nat **)

let resolve_index l k =
  N.to_nat (index_of (parse_ref k) (N.of_nat (length l)))

(** val will_insert : bytes -> bool **)

let will_insert k =
  inserts (parse_ref k)

(** val traverse : item -> bytes list -> item **)

let rec traverse t = function
| [] -> t
| k :: ks ->
  if is_list_ref k
  then (match t with
        | Lst l -> traverse (get_at l (resolve_index l k)) ks
        | _ -> Null)
  else (match t with
        | Map m -> traverse (map_get m k) ks
        | _ -> Null)

(** val is_empty : bytes -> bool **)

let is_empty = function
| [] -> true
| _ :: _ -> false

(** val write_ok : item -> bytes list -> bool **)

let rec write_ok t = function
| [] -> true
| k :: ks ->
  if is_empty k
  then write_ok t ks
  else if is_list_ref k
       then (match t with
             | Null -> write_ok Null ks
             | Lst l -> write_ok (get_at l (resolve_index l k)) ks
             | _ -> false)
       else (match t with
             | Null -> write_ok Null ks
             | Map m -> write_ok (map_get m k) ks
             | _ -> false)

(** val write_at : item -> bytes list -> item -> item **)

let rec write_at t keys v =
  match keys with
  | [] -> v
  | k :: ks ->
    if is_empty k
    then write_at t ks v
    else if is_list_ref k
         then let l =
                match t with
                | Null -> []
                | Scalar _ -> []
                | Lst l -> l
                | Map _ -> []
              in
              let i = resolve_index l k in
              let child = write_at (get_at l i) ks v in
              let l1 = if will_insert k then insert_at l i Null else l in
              Lst (set_at l1 i child)
         else let m =
                match t with
                | Null -> []
                | Scalar _ -> []
                | Lst _ -> []
                | Map m -> m
              in
              Map (map_set m k (write_at (map_get m k) ks v))

(** val config_get : item -> bytes -> item **)

let config_get root path =
  traverse root (path_keys path)

(** val config_set : item -> bytes -> item -> item option **)

let config_set root path v =
  let keys = path_keys path in
  if write_ok root keys then Some (write_at root keys v) else None

(** val cstr : bytes -> bytes **)

let rec cstr = function
| [] -> []
| c :: r -> if N.eqb (bN c) N0 then [] else c :: (cstr r)

(** val to_lower : byte -> byte **)

let to_lower b =
  if (&&) (N.leb (Npos (XI (XO (XO (XO (XO (XO XH))))))) (bN b))
       (N.leb (bN b) (Npos (XO (XI (XO (XI (XI (XO XH))))))))
  then byte_of_N (N.add (bN b) (Npos (XO (XO (XO (XO (XO XH)))))))
  else b

(** val s_true : bytes **)

let s_true =
  X74 :: (X72 :: (X75 :: (X65 :: [])))

(** val s_false : bytes **)

let s_false =
  X66 :: (X61 :: (X6c :: (X73 :: (X65 :: []))))

(** val get_bool : bytes -> bool option **)

let get_bool s = match s with
| [] -> None
| _ :: _ ->
  let l = map to_lower s in
  if bytes_eqb l s_true
  then Some true
  else if bytes_eqb l s_false then Some false else None

(** val set_bool : bool -> bytes **)

let set_bool = function
| true -> s_true
| false -> s_false

(** val hex_val : byte -> n option **)

let hex_val b =
  let n0 = bN b in
  if (&&) (N.leb (Npos (XO (XO (XO (XO (XI XH)))))) n0)
       (N.leb n0 (Npos (XI (XO (XO (XI (XI XH)))))))
  then Some (N.sub n0 (Npos (XO (XO (XO (XO (XI XH)))))))
  else if (&&) (N.leb (Npos (XI (XO (XO (XO (XO (XO XH))))))) n0)
            (N.leb n0 (Npos (XO (XI (XI (XO (XO (XO XH))))))))
       then Some (N.sub n0 (Npos (XI (XI (XI (XO (XI XH)))))))
       else if (&&) (N.leb (Npos (XI (XO (XO (XO (XO (XI XH))))))) n0)
                 (N.leb n0 (Npos (XO (XI (XI (XO (XO (XI XH))))))))
            then Some (N.sub n0 (Npos (XI (XI (XI (XO (XI (XO XH))))))))
            else None

(** val hex_run : n -> bytes -> n * bytes **)

let rec hex_run acc l = match l with
| [] -> (acc, [])
| c :: r ->
  (match hex_val c with
   | Some d -> hex_run (N.add (N.mul acc (Npos (XO (XO (XO (XO XH)))))) d) r
   | None -> (acc, l))

(** val int_min : z **)

let int_min =
  Zneg (XO (XO (XO (XO (XO (XO (XO (XO (XO (XO (XO (XO (XO (XO (XO (XO (XO
    (XO (XO (XO (XO (XO (XO (XO (XO (XO (XO (XO (XO (XO (XO
    XH)))))))))))))))))))))))))))))))

(** val int_max : z **)

let int_max =
  Zpos (XI (XI (XI (XI (XI (XI (XI (XI (XI (XI (XI (XI (XI (XI (XI (XI (XI
    (XI (XI (XI (XI (XI (XI (XI (XI (XI (XI (XI (XI (XI
    XH))))))))))))))))))))))))))))))

(** val to_int32 : n -> z **)

let to_int32 n0 =
  let m = N.modulo n0 two32 in
  if N.ltb m (Npos (XO (XO (XO (XO (XO (XO (XO (XO (XO (XO (XO (XO (XO (XO
       (XO (XO (XO (XO (XO (XO (XO (XO (XO (XO (XO (XO (XO (XO (XO (XO (XO
       XH))))))))))))))))))))))))))))))))
  then Z.of_N m
  else Z.sub (Z.of_N m) (Zpos (XO (XO (XO (XO (XO (XO (XO (XO (XO (XO (XO (XO
         (XO (XO (XO (XO (XO (XO (XO (XO (XO (XO (XO (XO (XO (XO (XO (XO (XO
         (XO (XO (XO XH)))))))))))))))))))))))))))))))))

(** val get_int_hex : bytes -> z option **)

let get_int_hex = function
| [] -> None
| z0 :: l ->
  (match l with
   | [] -> None
   | x :: r ->
     if (&&) (byte_eqb z0 X30) (byte_eqb x X78)
     then (match r with
           | [] -> None
           | d :: _ ->
             (match hex_val d with
              | Some _ ->
                let (v, rest) = hex_run N0 r in
                (match rest with
                 | [] ->
                   Some
                     (to_int32
                       (if N.leb two64 v then N.sub two64 (Npos XH) else v))
                 | _ :: _ -> None)
              | None -> None))
     else None)

(** val has_digit : bytes -> bool **)

let has_digit = function
| [] -> false
| c :: _ -> is_digit c

(** val stoi : bytes -> z option **)

let stoi c =
  let l1 = skip_spaces c in
  (match l1 with
   | [] ->
     let neg = false in
     if has_digit l1
     then let v = Z.of_N (digits_val N0 l1) in
          let z0 = if neg then Z.opp v else v in
          if (&&) (Z.leb int_min z0) (Z.leb z0 int_max) then Some z0 else None
     else None
   | ch :: r ->
     if byte_eqb ch X2d
     then let neg = true in
          if has_digit r
          then let v = Z.of_N (digits_val N0 r) in
               let z0 = if neg then Z.opp v else v in
               if (&&) (Z.leb int_min z0) (Z.leb z0 int_max)
               then Some z0
               else None
          else None
     else if byte_eqb ch X2b
          then let neg = false in
               if has_digit r
               then let v = Z.of_N (digits_val N0 r) in
                    let z0 = if neg then Z.opp v else v in
                    if (&&) (Z.leb int_min z0) (Z.leb z0 int_max)
                    then Some z0
                    else None
               else None
          else let neg = false in
               if has_digit l1
               then let v = Z.of_N (digits_val N0 l1) in
                    let z0 = if neg then Z.opp v else v in
                    if (&&) (Z.leb int_min z0) (Z.leb z0 int_max)
                    then Some z0
                    else None
               else None)

(** val get_int : bytes -> z option **)

let get_int s = match s with
| [] -> None
| _ :: _ ->
  let c = cstr s in
  (match if starts_with (X30 :: (X78 :: [])) s then get_int_hex c else None with
   | Some z0 -> Some z0
   | None -> stoi c)

(** val dec_digits : nat -> n -> bytes -> bytes **)

let rec dec_digits fuel n0 acc =
  match fuel with
  | O -> acc
  | S f ->
    let d =
      byte_of_N
        (N.add (Npos (XO (XO (XO (XO (XI XH))))))
          (N.modulo n0 (Npos (XO (XI (XO XH))))))
    in
    let q = N.div n0 (Npos (XO (XI (XO XH)))) in
    if N.eqb q N0 then d :: acc else dec_digits f q (d :: acc)

(** val dec : n -> bytes **)

let dec n0 =
  dec_digits (S (N.to_nat (N.size n0))) n0 []

(** val set_int : z -> bytes **)

let set_int z0 = match z0 with
| Zneg p -> X2d :: (dec (Npos p))
| _ -> dec (Z.to_N z0)

(** val value_at : item -> bytes -> bytes option **)

let value_at root path =
  match config_get root path with
  | Scalar s -> Some s
  | _ -> None

(** val cfg_get_string : item -> bytes -> bytes option **)

let cfg_get_string =
  value_at

(** val cfg_get_int : item -> bytes -> z option **)

let cfg_get_int root path =
  match value_at root path with
  | Some s -> get_int s
  | None -> None

(** val cfg_get_bool : item -> bytes -> bool option **)

let cfg_get_bool root path =
  match value_at root path with
  | Some s -> get_bool s
  | None -> None

(** val cfg_list_size : item -> bytes -> nat **)

let cfg_list_size root path =
  match config_get root path with
  | Lst l -> length l
  | _ -> O

type store = item list

type op =
| OSetString of nat * bytes * bytes
| OSetInt of nat * bytes * z
| OSetBool of nat * bytes * bool
| OClear of nat * bytes
| OCreateList of nat * bytes
| OCreateMap of nat * bytes
| OGetString of nat * bytes
| OGetInt of nat * bytes
| OGetBool of nat * bytes
| OListSize of nat * bytes
| OGetItem of nat * bytes * nat
| OSetItem of nat * bytes * nat
| OIterList of nat * bytes
| OIterMap of nat * bytes

type obs =
| RBool of bool
| RString of bytes option
| RInt of z option
| RFlag of bool option
| RSize of nat
| RPaths of (bytes * bytes) list option

(** val root_of : store -> nat -> item **)

let root_of st c =
  nth c st Null

(** val set_root : store -> nat -> item -> store **)

let rec set_root st c t =
  match st with
  | [] -> []
  | x :: r -> (match c with
               | O -> t :: r
               | S c' -> x :: (set_root r c' t))

(** val do_set : store -> nat -> bytes -> item -> store * obs **)

let do_set st c p v =
  match config_set (root_of st c) p v with
  | Some t -> ((set_root st c t), (RBool true))
  | None -> (st, (RBool false))

(** val iter_prefix : bytes -> bytes **)

let iter_prefix p =
  if is_root_path p then [] else app p (slash :: [])

(** val list_key : nat -> bytes **)

let list_key i =
  at_sign :: (dec (N.of_nat i))

(** val api_step : store -> op -> store * obs **)

let api_step st = function
| OSetString (c, p, v) -> do_set st c p (Scalar v)
| OSetInt (c, p, z0) -> do_set st c p (Scalar (set_int z0))
| OSetBool (c, p, b) -> do_set st c p (Scalar (set_bool b))
| OClear (c, p) -> do_set st c p Null
| OCreateList (c, p) -> do_set st c p (Lst [])
| OCreateMap (c, p) -> do_set st c p (Map [])
| OGetString (c, p) -> (st, (RString (cfg_get_string (root_of st c) p)))
| OGetInt (c, p) -> (st, (RInt (cfg_get_int (root_of st c) p)))
| OGetBool (c, p) -> (st, (RFlag (cfg_get_bool (root_of st c) p)))
| OListSize (c, p) -> (st, (RSize (cfg_list_size (root_of st c) p)))
| OGetItem (c, p, dst) ->
  ((set_root st dst (config_get (root_of st c) p)), (RBool true))
| OSetItem (c, p, src) -> do_set st c p (root_of st src)
| OIterList (c, p) ->
  (match config_get (root_of st c) p with
   | Lst l ->
     (st, (RPaths (Some
       (map (fun i -> ((list_key i), (app (iter_prefix p) (list_key i))))
         (seq O (length l))))))
   | _ -> (st, (RPaths None)))
| OIterMap (c, p) ->
  (match config_get (root_of st c) p with
   | Map m ->
     (st, (RPaths (Some
       (map (fun kv -> ((fst kv), (app (iter_prefix p) (fst kv)))) m))))
   | _ -> (st, (RPaths None)))

type octs = n list

(** val nums : bytes -> octs **)

let nums s =
  map to_N s

(** val unnums : octs -> bytes **)

let unnums o =
  map byte_of_N o

(** val lF : n **)

let lF =
  Npos (XO (XI (XO XH)))

(** val sP : n **)

let sP =
  Npos (XO (XO (XO (XO (XO XH)))))

type style_req =
| ReqAuto
| ReqDoubleQuoted
| ReqLiteral

(** val plain_class : n -> bool **)

let plain_class c =
  (||)
    ((||)
      ((||)
        ((||)
          ((&&) (N.leb (Npos (XO (XO (XO (XO (XI XH)))))) c)
            (N.leb c (Npos (XI (XO (XO (XI (XI XH))))))))
          ((&&) (N.leb (Npos (XI (XO (XO (XO (XO (XO XH))))))) c)
            (N.leb c (Npos (XO (XI (XO (XI (XI (XO XH))))))))))
        ((&&) (N.leb (Npos (XI (XO (XO (XO (XO (XI XH))))))) c)
          (N.leb c (Npos (XO (XI (XO (XI (XI (XI XH))))))))))
      (N.eqb c (Npos (XI (XI (XI (XI (XI (XO XH)))))))))
    (N.eqb c (Npos (XO (XI (XI (XI (XO XH)))))))

(** val is_break : n -> bool **)

let is_break c =
  (||) (N.eqb c (Npos (XO (XI (XO XH))))) (N.eqb c (Npos (XI (XO (XI XH)))))

(** val lit_char_ok : n -> bool **)

let lit_char_ok c =
  (||)
    ((||) (N.leb (Npos (XO (XO (XO (XO (XO XH)))))) c)
      (N.eqb c (Npos (XO (XI (XO XH)))))) (N.eqb c (Npos (XI (XO (XO XH)))))

(** val ends_in_one_lf : octs -> bool **)

let rec ends_in_one_lf = function
| [] -> false
| b :: r ->
  (match r with
   | [] -> N.eqb b (Npos (XO (XI (XO XH))))
   | c :: l ->
     (match l with
      | [] ->
        (&&) (negb (N.eqb b (Npos (XO (XI (XO XH))))))
          (N.eqb c (Npos (XO (XI (XO XH)))))
      | _ :: _ -> ends_in_one_lf r))

(** val literal_safe : octs -> bool **)

let literal_safe s = match s with
| [] -> false
| c :: _ ->
  (&&)
    ((&&)
      ((&&) (negb (N.eqb c (Npos (XO (XI (XO XH))))))
        (negb (N.eqb c (Npos (XO (XO (XO (XO (XO XH)))))))))
      (ends_in_one_lf s)) (forallb lit_char_ok s)

(** val three_dots : octs -> bool **)

let three_dots = function
| [] -> false
| a :: l ->
  (match l with
   | [] -> false
   | b :: l0 ->
     (match l0 with
      | [] -> false
      | c :: l1 ->
        (match l1 with
         | [] ->
           (&&)
             ((&&) (N.eqb a (Npos (XO (XI (XI (XI (XO XH)))))))
               (N.eqb b (Npos (XO (XI (XI (XI (XO XH))))))))
             (N.eqb c (Npos (XO (XI (XI (XI (XO XH)))))))
         | _ :: _ -> false)))

(** val style_request_fixed : octs -> style_req **)

let style_request_fixed s =
  if existsb is_break s
  then if literal_safe s then ReqLiteral else ReqDoubleQuoted
  else if (&&) (forallb plain_class s) (negb (three_dots s))
       then ReqAuto
       else ReqDoubleQuoted

(** val style_request : octs -> style_req **)

let style_request =
  style_request_fixed

type fmt =
| FPlain
| FDouble
| FLiteral

(** val is_null_word : octs -> bool **)

let is_null_word = function
| [] -> true
| n0 :: l ->
  (match n0 with
   | N0 -> false
   | Npos p ->
     (match p with
      | XO p0 ->
        (match p0 with
         | XI p1 ->
           (match p1 with
            | XI p2 ->
              (match p2 with
               | XI p3 ->
                 (match p3 with
                  | XI p4 ->
                    (match p4 with
                     | XI p5 ->
                       (match p5 with
                        | XH -> (match l with
                                 | [] -> true
                                 | _ :: _ -> false)
                        | _ -> false)
                     | _ -> false)
                  | XO p4 ->
                    (match p4 with
                     | XI p5 ->
                       (match p5 with
                        | XH ->
                          (match l with
                           | [] -> false
                           | n1 :: l0 ->
                             (match n1 with
                              | N0 -> false
                              | Npos p6 ->
                                (match p6 with
                                 | XI p7 ->
                                   (match p7 with
                                    | XO p8 ->
                                      (match p8 with
                                       | XI p9 ->
                                         (match p9 with
                                          | XO p10 ->
                                            (match p10 with
                                             | XI p11 ->
                                               (match p11 with
                                                | XI p12 ->
                                                  (match p12 with
                                                   | XH ->
                                                     (match l0 with
                                                      | [] -> false
                                                      | n2 :: l1 ->
                                                        (match n2 with
                                                         | N0 -> false
                                                         | Npos p13 ->
                                                           (match p13 with
                                                            | XO p14 ->
                                                              (match p14 with
                                                               | XO p15 ->
                                                                 (match p15 with
                                                                  | XI p16 ->
                                                                    (match p16 with
                                                                    | XI p17 ->
                                                                    (match p17 with
                                                                    | XO p18 ->
                                                                    (match p18 with
                                                                    | XI p19 ->
                                                                    (match p19 with
                                                                    | XH ->
                                                                    (match l1 with
                                                                    | [] ->
                                                                    false
                                                                    | n3 :: l2 ->
                                                                    (match n3 with
                                                                    | N0 ->
                                                                    false
                                                                    | Npos p20 ->
                                                                    (match p20 with
                                                                    | XO p21 ->
                                                                    (match p21 with
                                                                    | XO p22 ->
                                                                    (match p22 with
                                                                    | XI p23 ->
                                                                    (match p23 with
                                                                    | XI p24 ->
                                                                    (match p24 with
                                                                    | XO p25 ->
                                                                    (match p25 with
                                                                    | XI p26 ->
                                                                    (match p26 with
                                                                    | XH ->
                                                                    (match l2 with
                                                                    | [] ->
                                                                    true
                                                                    | _ :: _ ->
                                                                    false)
                                                                    | _ ->
                                                                    false)
                                                                    | _ ->
                                                                    false)
                                                                    | _ ->
                                                                    false)
                                                                    | _ ->
                                                                    false)
                                                                    | _ ->
                                                                    false)
                                                                    | _ ->
                                                                    false)
                                                                    | _ ->
                                                                    false)))
                                                                    | _ ->
                                                                    false)
                                                                    | _ ->
                                                                    false)
                                                                    | _ ->
                                                                    false)
                                                                    | _ ->
                                                                    false)
                                                                  | _ -> false)
                                                               | _ -> false)
                                                            | _ -> false)))
                                                   | _ -> false)
                                                | _ -> false)
                                             | _ -> false)
                                          | _ -> false)
                                       | _ -> false)
                                    | _ -> false)
                                 | _ -> false)))
                        | _ -> false)
                     | XO p5 ->
                       (match p5 with
                        | XH ->
                          (match l with
                           | [] -> false
                           | n1 :: l0 ->
                             (match n1 with
                              | N0 -> false
                              | Npos p6 ->
                                (match p6 with
                                 | XI p7 ->
                                   (match p7 with
                                    | XO p8 ->
                                      (match p8 with
                                       | XI p9 ->
                                         (match p9 with
                                          | XO p10 ->
                                            (match p10 with
                                             | XI p11 ->
                                               (match p11 with
                                                | XI p12 ->
                                                  (match p12 with
                                                   | XH ->
                                                     (match l0 with
                                                      | [] -> false
                                                      | n2 :: l1 ->
                                                        (match n2 with
                                                         | N0 -> false
                                                         | Npos p13 ->
                                                           (match p13 with
                                                            | XO p14 ->
                                                              (match p14 with
                                                               | XO p15 ->
                                                                 (match p15 with
                                                                  | XI p16 ->
                                                                    (match p16 with
                                                                    | XI p17 ->
                                                                    (match p17 with
                                                                    | XO p18 ->
                                                                    (match p18 with
                                                                    | XI p19 ->
                                                                    (match p19 with
                                                                    | XH ->
                                                                    (match l1 with
                                                                    | [] ->
                                                                    false
                                                                    | n3 :: l2 ->
                                                                    (match n3 with
                                                                    | N0 ->
                                                                    false
                                                                    | Npos p20 ->
                                                                    (match p20 with
                                                                    | XO p21 ->
                                                                    (match p21 with
                                                                    | XO p22 ->
                                                                    (match p22 with
                                                                    | XI p23 ->
                                                                    (match p23 with
                                                                    | XI p24 ->
                                                                    (match p24 with
                                                                    | XO p25 ->
                                                                    (match p25 with
                                                                    | XI p26 ->
                                                                    (match p26 with
                                                                    | XH ->
                                                                    (match l2 with
                                                                    | [] ->
                                                                    true
                                                                    | _ :: _ ->
                                                                    false)
                                                                    | _ ->
                                                                    false)
                                                                    | _ ->
                                                                    false)
                                                                    | _ ->
                                                                    false)
                                                                    | _ ->
                                                                    false)
                                                                    | _ ->
                                                                    false)
                                                                    | _ ->
                                                                    false)
                                                                    | _ ->
                                                                    false)))
                                                                    | _ ->
                                                                    false)
                                                                    | _ ->
                                                                    false)
                                                                    | _ ->
                                                                    false)
                                                                    | _ ->
                                                                    false)
                                                                  | _ -> false)
                                                               | _ -> false)
                                                            | _ -> false)))
                                                   | _ -> false)
                                                | XO p12 ->
                                                  (match p12 with
                                                   | XH ->
                                                     (match l0 with
                                                      | [] -> false
                                                      | n2 :: l1 ->
                                                        (match n2 with
                                                         | N0 -> false
                                                         | Npos p13 ->
                                                           (match p13 with
                                                            | XO p14 ->
                                                              (match p14 with
                                                               | XO p15 ->
                                                                 (match p15 with
                                                                  | XI p16 ->
                                                                    (match p16 with
                                                                    | XI p17 ->
                                                                    (match p17 with
                                                                    | XO p18 ->
                                                                    (match p18 with
                                                                    | XO p19 ->
                                                                    (match p19 with
                                                                    | XH ->
                                                                    (match l1 with
                                                                    | [] ->
                                                                    false
                                                                    | n3 :: l2 ->
                                                                    (match n3 with
                                                                    | N0 ->
                                                                    false
                                                                    | Npos p20 ->
                                                                    (match p20 with
                                                                    | XO p21 ->
                                                                    (match p21 with
                                                                    | XO p22 ->
                                                                    (match p22 with
                                                                    | XI p23 ->
                                                                    (match p23 with
                                                                    | XI p24 ->
                                                                    (match p24 with
                                                                    | XO p25 ->
                                                                    (match p25 with
                                                                    | XO p26 ->
                                                                    (match p26 with
                                                                    | XH ->
                                                                    (match l2 with
                                                                    | [] ->
                                                                    true
                                                                    | _ :: _ ->
                                                                    false)
                                                                    | _ ->
                                                                    false)
                                                                    | _ ->
                                                                    false)
                                                                    | _ ->
                                                                    false)
                                                                    | _ ->
                                                                    false)
                                                                    | _ ->
                                                                    false)
                                                                    | _ ->
                                                                    false)
                                                                    | _ ->
                                                                    false)))
                                                                    | _ ->
                                                                    false)
                                                                    | _ ->
                                                                    false)
                                                                    | _ ->
                                                                    false)
                                                                    | _ ->
                                                                    false)
                                                                  | _ -> false)
                                                               | _ -> false)
                                                            | _ -> false)))
                                                   | _ -> false)
                                                | XH -> false)
                                             | _ -> false)
                                          | _ -> false)
                                       | _ -> false)
                                    | _ -> false)
                                 | _ -> false)))
                        | _ -> false)
                     | XH -> false)
                  | XH -> false)
               | _ -> false)
            | _ -> false)
         | _ -> false)
      | _ -> false))

(** val compute_fmt : style_req -> bool -> octs -> fmt **)

let compute_fmt req flow s =
  match req with
  | ReqAuto -> if is_null_word s then FDouble else FPlain
  | ReqDoubleQuoted -> FDouble
  | ReqLiteral -> if flow then FDouble else FLiteral

(** val rEPL : n **)

let rEPL =
  Npos (XI (XO (XI (XI (XI (XI (XI (XI (XI (XI (XI (XI (XI (XI (XI
    XH)))))))))))))))

(** val lead_len : n -> nat **)

let lead_len b =
  let h = N.div b (Npos (XO (XO (XO (XO XH))))) in
  if N.ltb h (Npos (XO (XO (XO XH))))
  then S O
  else if (||) (N.eqb h (Npos (XO (XO (XI XH)))))
            (N.eqb h (Npos (XI (XO (XI XH)))))
       then S (S O)
       else if N.eqb h (Npos (XO (XI (XI XH))))
            then S (S (S O))
            else if N.eqb h (Npos (XI (XI (XI XH))))
                 then S (S (S (S O)))
                 else O

(** val is_trail : n -> bool **)

let is_trail b =
  (&&) (N.leb (Npos (XO (XO (XO (XO (XO (XO (XO XH)))))))) b)
    (N.ltb b (Npos (XO (XO (XO (XO (XO (XO (XI XH)))))))))

(** val fix_cp : n -> n **)

let fix_cp cp =
  if N.ltb (Npos (XI (XI (XI (XI (XI (XI (XI (XI (XI (XI (XI (XI (XI (XI (XI
       (XI (XO (XO (XO (XO XH))))))))))))))))))))) cp
  then rEPL
  else if (&&)
            (N.leb (Npos (XO (XO (XO (XO (XO (XO (XO (XO (XO (XO (XO (XI (XI
              (XO (XI XH)))))))))))))))) cp)
            (N.leb cp (Npos (XI (XI (XI (XI (XI (XI (XI (XI (XI (XI (XI (XI
              (XI (XO (XI XH)))))))))))))))))
       then rEPL
       else if N.eqb
                 (N.div
                   (N.modulo cp (Npos (XO (XO (XO (XO (XO (XO (XO (XO (XO (XO
                     (XO (XO (XO (XO (XO (XO XH)))))))))))))))))) (Npos (XO
                   XH))) (Npos (XI (XI (XI (XI (XI (XI (XI (XI (XI (XI (XI
                 (XI (XI (XI XH)))))))))))))))
            then rEPL
            else if (&&)
                      (N.leb (Npos (XO (XO (XO (XO (XI (XO (XI (XI (XI (XO
                        (XI (XI (XI (XI (XI XH)))))))))))))))) cp)
                      (N.leb cp (Npos (XI (XI (XI (XI (XO (XI (XI (XI (XI (XO
                        (XI (XI (XI (XI (XI XH)))))))))))))))))
                 then rEPL
                 else cp

(** val decode : octs -> n list **)

let rec decode = function
| [] -> []
| b :: r ->
  (match lead_len b with
   | O -> rEPL :: (decode r)
   | S n0 ->
     (match n0 with
      | O -> b :: (decode r)
      | S n1 ->
        (match n1 with
         | O ->
           (match r with
            | [] -> rEPL :: []
            | b2 :: r2 ->
              if is_trail b2
              then (fix_cp
                     (N.add
                       (N.mul (N.modulo b (Npos (XO (XO (XO (XO (XO XH)))))))
                         (Npos (XO (XO (XO (XO (XO (XO XH))))))))
                       (N.modulo b2 (Npos (XO (XO (XO (XO (XO (XO XH)))))))))) :: 
                     (decode r2)
              else rEPL :: (decode r))
         | S n2 ->
           (match n2 with
            | O ->
              (match r with
               | [] -> rEPL :: []
               | b2 :: r2 ->
                 if is_trail b2
                 then (match r2 with
                       | [] -> rEPL :: []
                       | b3 :: r3 ->
                         if is_trail b3
                         then (fix_cp
                                (N.add
                                  (N.mul
                                    (N.add
                                      (N.mul
                                        (N.modulo b (Npos (XO (XO (XO (XO
                                          XH)))))) (Npos (XO (XO (XO (XO (XO
                                        (XO XH))))))))
                                      (N.modulo b2 (Npos (XO (XO (XO (XO (XO
                                        (XO XH))))))))) (Npos (XO (XO (XO (XO
                                    (XO (XO XH))))))))
                                  (N.modulo b3 (Npos (XO (XO (XO (XO (XO (XO
                                    XH)))))))))) :: (decode r3)
                         else rEPL :: (decode r2))
                 else rEPL :: (decode r))
            | S n3 ->
              (match n3 with
               | O ->
                 (match r with
                  | [] -> rEPL :: []
                  | b2 :: r2 ->
                    if is_trail b2
                    then (match r2 with
                          | [] -> rEPL :: []
                          | b3 :: r3 ->
                            if is_trail b3
                            then (match r3 with
                                  | [] -> rEPL :: []
                                  | b4 :: r4 ->
                                    if is_trail b4
                                    then (fix_cp
                                           (N.add
                                             (N.mul
                                               (N.add
                                                 (N.mul
                                                   (N.add
                                                     (N.mul
                                                       (N.modulo b (Npos (XO
                                                         (XO (XO XH)))))
                                                       (Npos (XO (XO (XO (XO
                                                       (XO (XO XH))))))))
                                                     (N.modulo b2 (Npos (XO
                                                       (XO (XO (XO (XO (XO
                                                       XH))))))))) (Npos (XO
                                                   (XO (XO (XO (XO (XO
                                                   XH))))))))
                                                 (N.modulo b3 (Npos (XO (XO
                                                   (XO (XO (XO (XO XH)))))))))
                                               (Npos (XO (XO (XO (XO (XO (XO
                                               XH))))))))
                                             (N.modulo b4 (Npos (XO (XO (XO
                                               (XO (XO (XO XH)))))))))) :: 
                                           (decode r4)
                                    else rEPL :: (decode r3))
                            else rEPL :: (decode r2))
                    else rEPL :: (decode r))
               | S _ -> rEPL :: (decode r))))))

(** val encode : n -> octs **)

let encode cp0 =
  let cp =
    if N.ltb (Npos (XI (XI (XI (XI (XI (XI (XI (XI (XI (XI (XI (XI (XI (XI
         (XI (XI (XO (XO (XO (XO XH))))))))))))))))))))) cp0
    then rEPL
    else cp0
  in
  if N.leb cp (Npos (XI (XI (XI (XI (XI (XI XH)))))))
  then cp :: []
  else if N.leb cp (Npos (XI (XI (XI (XI (XI (XI (XI (XI (XI (XI XH)))))))))))
       then (N.add (Npos (XO (XO (XO (XO (XO (XO (XI XH))))))))
              (N.div cp (Npos (XO (XO (XO (XO (XO (XO XH))))))))) :: (
              (N.add (Npos (XO (XO (XO (XO (XO (XO (XO XH))))))))
                (N.modulo cp (Npos (XO (XO (XO (XO (XO (XO XH))))))))) :: [])
       else if N.leb cp (Npos (XI (XI (XI (XI (XI (XI (XI (XI (XI (XI (XI (XI
                 (XI (XI (XI XH))))))))))))))))
            then (N.add (Npos (XO (XO (XO (XO (XO (XI (XI XH))))))))
                   (N.div cp (Npos (XO (XO (XO (XO (XO (XO (XO (XO (XO (XO
                     (XO (XO XH))))))))))))))) :: ((N.add (Npos (XO (XO (XO
                                                     (XO (XO (XO (XO
                                                     XH))))))))
                                                     (N.modulo
                                                       (N.div cp (Npos (XO
                                                         (XO (XO (XO (XO (XO
                                                         XH)))))))) (Npos (XO
                                                       (XO (XO (XO (XO (XO
                                                       XH))))))))) :: (
                   (N.add (Npos (XO (XO (XO (XO (XO (XO (XO XH))))))))
                     (N.modulo cp (Npos (XO (XO (XO (XO (XO (XO XH))))))))) :: []))
            else (N.add (Npos (XO (XO (XO (XO (XI (XI (XI XH))))))))
                   (N.div cp (Npos (XO (XO (XO (XO (XO (XO (XO (XO (XO (XO
                     (XO (XO (XO (XO (XO (XO (XO (XO XH))))))))))))))))))))) :: (
                   (N.add (Npos (XO (XO (XO (XO (XO (XO (XO XH))))))))
                     (N.modulo
                       (N.div cp (Npos (XO (XO (XO (XO (XO (XO (XO (XO (XO
                         (XO (XO (XO XH)))))))))))))) (Npos (XO (XO (XO (XO
                       (XO (XO XH))))))))) :: ((N.add (Npos (XO (XO (XO (XO
                                                 (XO (XO (XO XH))))))))
                                                 (N.modulo
                                                   (N.div cp (Npos (XO (XO
                                                     (XO (XO (XO (XO
                                                     XH)))))))) (Npos (XO (XO
                                                   (XO (XO (XO (XO XH))))))))) :: (
                   (N.add (Npos (XO (XO (XO (XO (XO (XO (XO XH))))))))
                     (N.modulo cp (Npos (XO (XO (XO (XO (XO (XO XH))))))))) :: [])))

(** val hexdigit : n -> n **)

let hexdigit d =
  if N.ltb d (Npos (XO (XI (XO XH))))
  then N.add (Npos (XO (XO (XO (XO (XI XH)))))) d
  else N.add (Npos (XI (XI (XI (XO (XI (XO XH))))))) d

(** val esc_seq : n -> octs **)

let esc_seq cp =
  if N.ltb cp (Npos (XI (XI (XI (XI (XI (XI (XI XH))))))))
  then (Npos (XO (XO (XI (XI (XI (XO XH))))))) :: ((Npos (XO (XO (XO (XI (XI
         (XI
         XH))))))) :: ((hexdigit
                         (N.modulo (N.div cp (Npos (XO (XO (XO (XO XH))))))
                           (Npos (XO (XO (XO (XO XH))))))) :: ((hexdigit
                                                                 (N.modulo cp
                                                                   (Npos (XO
                                                                   (XO (XO
                                                                   (XO
                                                                   XH))))))) :: [])))
  else if N.ltb cp (Npos (XI (XI (XI (XI (XI (XI (XI (XI (XI (XI (XI (XI (XI
            (XI (XI XH))))))))))))))))
       then (Npos (XO (XO (XI (XI (XI (XO XH))))))) :: ((Npos (XI (XO (XI (XO
              (XI (XI
              XH))))))) :: ((hexdigit
                              (N.modulo
                                (N.div cp (Npos (XO (XO (XO (XO (XO (XO (XO
                                  (XO (XO (XO (XO (XO XH)))))))))))))) (Npos
                                (XO (XO (XO (XO XH))))))) :: ((hexdigit
                                                                (N.modulo
                                                                  (N.div cp
                                                                    (Npos (XO
                                                                    (XO (XO
                                                                    (XO (XO
                                                                    (XO (XO
                                                                    (XO
                                                                    XH))))))))))
                                                                  (Npos (XO
                                                                  (XO (XO (XO
                                                                  XH))))))) :: (
              (hexdigit
                (N.modulo (N.div cp (Npos (XO (XO (XO (XO XH)))))) (Npos (XO
                  (XO (XO (XO XH))))))) :: ((hexdigit
                                              (N.modulo cp (Npos (XO (XO (XO
                                                (XO XH))))))) :: [])))))
       else (Npos (XO (XO (XI (XI (XI (XO XH))))))) :: ((Npos (XI (XO (XI (XO
              (XI (XO
              XH))))))) :: ((hexdigit
                              (N.modulo
                                (N.div cp (Npos (XO (XO (XO (XO (XO (XO (XO
                                  (XO (XO (XO (XO (XO (XO (XO (XO (XO (XO (XO
                                  (XO (XO (XO (XO (XO (XO (XO (XO (XO (XO
                                  XH)))))))))))))))))))))))))))))) (Npos (XO
                                (XO (XO (XO XH))))))) :: ((hexdigit
                                                            (N.modulo
                                                              (N.div cp (Npos
                                                                (XO (XO (XO
                                                                (XO (XO (XO
                                                                (XO (XO (XO
                                                                (XO (XO (XO
                                                                (XO (XO (XO
                                                                (XO (XO (XO
                                                                (XO (XO (XO
                                                                (XO (XO (XO
                                                                XH))))))))))))))))))))))))))
                                                              (Npos (XO (XO
                                                              (XO (XO XH))))))) :: (
              (hexdigit
                (N.modulo
                  (N.div cp (Npos (XO (XO (XO (XO (XO (XO (XO (XO (XO (XO (XO
                    (XO (XO (XO (XO (XO (XO (XO (XO (XO
                    XH)))))))))))))))))))))) (Npos (XO (XO (XO (XO XH))))))) :: (
              (hexdigit
                (N.modulo
                  (N.div cp (Npos (XO (XO (XO (XO (XO (XO (XO (XO (XO (XO (XO
                    (XO (XO (XO (XO (XO XH)))))))))))))))))) (Npos (XO (XO
                  (XO (XO XH))))))) :: ((hexdigit
                                          (N.modulo
                                            (N.div cp (Npos (XO (XO (XO (XO
                                              (XO (XO (XO (XO (XO (XO (XO (XO
                                              XH)))))))))))))) (Npos (XO (XO
                                            (XO (XO XH))))))) :: ((hexdigit
                                                                    (N.modulo
                                                                    (N.div cp
                                                                    (Npos (XO
                                                                    (XO (XO
                                                                    (XO (XO
                                                                    (XO (XO
                                                                    (XO
                                                                    XH))))))))))
                                                                    (Npos (XO
                                                                    (XO (XO
                                                                    (XO
                                                                    XH))))))) :: (
              (hexdigit
                (N.modulo (N.div cp (Npos (XO (XO (XO (XO XH)))))) (Npos (XO
                  (XO (XO (XO XH))))))) :: ((hexdigit
                                              (N.modulo cp (Npos (XO (XO (XO
                                                (XO XH))))))) :: [])))))))))

(** val dq_cp : n -> octs **)

let dq_cp cp =
  if N.eqb cp (Npos (XO (XI (XO (XO (XO XH))))))
  then (Npos (XO (XO (XI (XI (XI (XO XH))))))) :: ((Npos (XO (XI (XO (XO (XO
         XH)))))) :: [])
  else if N.eqb cp (Npos (XO (XO (XI (XI (XI (XO XH)))))))
       then (Npos (XO (XO (XI (XI (XI (XO XH))))))) :: ((Npos (XO (XO (XI (XI
              (XI (XO XH))))))) :: [])
       else if N.eqb cp (Npos (XO (XI (XO XH))))
            then (Npos (XO (XO (XI (XI (XI (XO XH))))))) :: ((Npos (XO (XI
                   (XI (XI (XO (XI XH))))))) :: [])
            else if N.eqb cp (Npos (XI (XO (XO XH))))
                 then (Npos (XO (XO (XI (XI (XI (XO XH))))))) :: ((Npos (XO
                        (XO (XI (XO (XI (XI XH))))))) :: [])
                 else if N.eqb cp (Npos (XI (XO (XI XH))))
                      then (Npos (XO (XO (XI (XI (XI (XO XH))))))) :: ((Npos
                             (XO (XI (XO (XO (XI (XI XH))))))) :: [])
                      else if N.eqb cp (Npos (XO (XO (XO XH))))
                           then (Npos (XO (XO (XI (XI (XI (XO
                                  XH))))))) :: ((Npos (XO (XI (XO (XO (XO (XI
                                  XH))))))) :: [])
                           else if N.eqb cp (Npos (XO (XO (XI XH))))
                                then (Npos (XO (XO (XI (XI (XI (XO
                                       XH))))))) :: ((Npos (XO (XI (XI (XO
                                       (XO (XI XH))))))) :: [])
                                else if (||)
                                          (N.ltb cp (Npos (XO (XO (XO (XO (XO
                                            XH)))))))
                                          ((&&)
                                            (N.leb (Npos (XO (XO (XO (XO (XO
                                              (XO (XO XH)))))))) cp)
                                            (N.leb cp (Npos (XO (XO (XO (XO
                                              (XO (XI (XO XH))))))))))
                                     then esc_seq cp
                                     else if N.eqb cp (Npos (XI (XI (XI (XI
                                               (XI (XI (XI (XI (XO (XI (XI
                                               (XI (XI (XI (XI
                                               XH))))))))))))))))
                                          then esc_seq cp
                                          else encode cp

(** val dq_write : octs -> octs **)

let dq_write s =
  (Npos (XO (XI (XO (XO (XO
    XH)))))) :: (app (flat_map dq_cp (decode s)) ((Npos (XO (XI (XO (XO (XO
                  XH)))))) :: []))

(** val lit_body : nat -> bool -> n list -> octs **)

let rec lit_body indent at_bol = function
| [] -> []
| cp :: r ->
  if N.eqb cp (Npos (XO (XI (XO XH))))
  then (Npos (XO (XI (XO XH)))) :: (lit_body indent true r)
  else app (if at_bol then repeat sP indent else [])
         (app (encode cp) (lit_body indent false r))

(** val lit_write : nat -> octs -> octs **)

let lit_write indent s =
  (Npos (XO (XO (XI (XI (XI (XI XH))))))) :: ((Npos (XO (XI (XO
    XH)))) :: (lit_body indent true (decode s)))

(** val scalar_fmt : bool -> octs -> fmt **)

let scalar_fmt flow s =
  compute_fmt (style_request s) flow s

(** val scalar_bytes_f : fmt -> nat -> octs -> octs **)

let scalar_bytes_f f li s =
  match f with
  | FPlain -> s
  | FDouble -> dq_write s
  | FLiteral -> lit_write li s

(** val scalar_bytes : bool -> nat -> octs -> octs **)

let scalar_bytes flow li s =
  scalar_bytes_f (scalar_fmt flow s) li s

(** val long_key : fmt -> octs -> bool **)

let long_key f s =
  match f with
  | FLiteral -> true
  | _ ->
    Nat.ltb (S (S (S (S (S (S (S (S (S (S (S (S (S (S (S (S (S (S (S (S (S (S
      (S (S (S (S (S (S (S (S (S (S (S (S (S (S (S (S (S (S (S (S (S (S (S (S
      (S (S (S (S (S (S (S (S (S (S (S (S (S (S (S (S (S (S (S (S (S (S (S (S
      (S (S (S (S (S (S (S (S (S (S (S (S (S (S (S (S (S (S (S (S (S (S (S (S
      (S (S (S (S (S (S (S (S (S (S (S (S (S (S (S (S (S (S (S (S (S (S (S (S
      (S (S (S (S (S (S (S (S (S (S (S (S (S (S (S (S (S (S (S (S (S (S (S (S
      (S (S (S (S (S (S (S (S (S (S (S (S (S (S (S (S (S (S (S (S (S (S (S (S
      (S (S (S (S (S (S (S (S (S (S (S (S (S (S (S (S (S (S (S (S (S (S (S (S
      (S (S (S (S (S (S (S (S (S (S (S (S (S (S (S (S (S (S (S (S (S (S (S (S
      (S (S (S (S (S (S (S (S (S (S (S (S (S (S (S (S (S (S (S (S (S (S (S (S
      (S (S (S (S (S (S (S (S (S (S (S (S (S (S (S (S (S (S (S (S (S (S (S (S
      (S (S (S (S (S (S (S (S (S (S (S (S (S (S (S (S (S (S (S (S (S (S (S (S
      (S (S (S (S (S (S (S (S (S (S (S (S (S (S (S (S (S (S (S (S (S (S (S (S
      (S (S (S (S (S (S (S (S (S (S (S (S (S (S (S (S (S (S (S (S (S (S (S (S
      (S (S (S (S (S (S (S (S (S (S (S (S (S (S (S (S (S (S (S (S (S (S (S (S
      (S (S (S (S (S (S (S (S (S (S (S (S (S (S (S (S (S (S (S (S (S (S (S (S
      (S (S (S (S (S (S (S (S (S (S (S (S (S (S (S (S (S (S (S (S (S (S (S (S
      (S (S (S (S (S (S (S (S (S (S (S (S (S (S (S (S (S (S (S (S (S (S (S (S
      (S (S (S (S (S (S (S (S (S (S (S (S (S (S (S (S (S (S (S (S (S (S (S (S
      (S (S (S (S (S (S (S (S (S (S (S (S (S (S (S (S (S (S (S (S (S (S (S (S
      (S (S (S (S (S (S (S (S (S (S (S (S (S (S (S (S (S (S (S (S (S (S (S (S
      (S (S (S (S (S (S (S (S (S (S (S (S (S (S (S (S (S (S (S (S (S (S (S (S
      (S (S (S (S (S (S (S (S (S (S (S (S (S (S (S (S (S (S (S (S (S (S (S (S
      (S (S (S (S (S (S (S (S (S (S (S (S (S (S (S (S (S (S (S (S (S (S (S (S
      (S (S (S (S (S (S (S (S (S (S (S (S (S (S (S (S (S (S (S (S (S (S (S (S
      (S (S (S (S (S (S (S (S (S (S (S (S (S (S (S (S (S (S (S (S (S (S (S (S
      (S (S (S (S (S (S (S (S (S (S (S (S (S (S (S (S (S (S (S (S (S (S (S (S
      (S (S (S (S (S (S (S (S (S (S (S (S (S (S (S (S (S (S (S (S (S (S (S (S
      (S (S (S (S (S (S (S (S (S (S (S (S (S (S (S (S (S (S (S (S (S (S (S (S
      (S (S (S (S (S (S (S (S (S (S (S (S (S (S (S (S (S (S (S (S (S (S (S (S
      (S (S (S (S (S (S (S (S (S (S (S (S (S (S (S (S (S (S (S (S (S (S (S (S
      (S (S (S (S (S (S (S (S (S (S (S (S (S (S (S (S (S (S (S (S (S (S (S (S
      (S (S (S (S (S (S (S (S (S (S (S (S (S (S (S (S (S (S (S (S (S (S (S (S
      (S (S (S (S (S (S (S (S (S (S (S (S (S (S (S (S (S (S (S (S (S (S (S (S
      (S (S (S (S (S (S (S (S (S (S (S (S (S (S (S (S (S (S (S (S (S (S (S (S
      (S (S (S (S (S (S (S (S (S (S (S (S (S (S (S (S (S (S (S (S (S (S (S (S
      (S (S (S (S (S (S (S (S (S (S (S (S (S (S (S (S (S (S (S (S (S (S (S (S
      (S (S (S (S (S (S (S (S (S (S (S (S (S (S (S (S (S (S (S (S (S (S (S (S
      (S (S (S (S (S (S (S (S (S (S (S (S (S (S (S (S (S (S (S (S (S (S (S (S
      (S (S (S (S (S (S (S (S (S (S (S (S (S (S (S (S (S (S (S (S (S (S (S (S
      (S (S (S (S (S (S (S (S (S (S (S (S (S (S (S (S (S (S (S (S (S (S (S (S
      (S (S (S (S (S (S (S (S (S (S (S (S (S (S (S (S (S (S (S (S (S (S (S (S
      (S (S (S (S (S (S (S (S (S (S (S (S (S (S (S (S (S (S
      O))))))))))))))))))))))))))))))))))))))))))))))))))))))))))))))))))))))))))))))))))))))))))))))))))))))))))))))))))))))))))))))))))))))))))))))))))))))))))))))))))))))))))))))))))))))))))))))))))))))))))))))))))))))))))))))))))))))))))))))))))))))))))))))))))))))))))))))))))))))))))))))))))))))))))))))))))))))))))))))))))))))))))))))))))))))))))))))))))))))))))))))))))))))))))))))))))))))))))))))))))))))))))))))))))))))))))))))))))))))))))))))))))))))))))))))))))))))))))))))))))))))))))))))))))))))))))))))))))))))))))))))))))))))))))))))))))))))))))))))))))))))))))))))))))))))))))))))))))))))))))))))))))))))))))))))))))))))))))))))))))))))))))))))))))))))))))))))))))))))))))))))))))))))))))))))))))))))))))))))))))))))))))))))))))))))))))))))))))))))))))))))))))))))))))))))))))))))))))))))))))))))))))))))))))))))))))))))))))))))))))))))))))))))))))))))))))))))))))))))))))))))))))))))))))))))))))))))))))))))))))))))))))))))))))))))))))))))))))))))))))))))))))))))))))))))))))))))))))))))))))))))))))))))))))))))))
      (length s)

type out = n list

(** val col : out -> nat **)

let rec col = function
| [] -> O
| c :: r -> if N.eqb c (Npos (XO (XI (XO XH)))) then O else S (col r)

(** val put : out -> octs -> out **)

let put o s =
  rev_append s o

(** val indent_to : out -> nat -> out **)

let indent_to o n0 =
  put o (repeat sP (sub n0 (col o)))

(** val space_or_indent : out -> bool -> nat -> out **)

let space_or_indent o require_space n0 =
  let o1 =
    if (&&) (Nat.ltb O (col o)) require_space then put o (sP :: []) else o
  in
  indent_to o1 n0

type ckind =
| CInline
| CBSeq
| CBMap

(** val nl_if : bool -> out -> out **)

let nl_if b o =
  if b then put o (lF :: []) else o

(** val prep_top : ckind -> out -> out **)

let prep_top ck o =
  match ck with
  | CInline -> space_or_indent o false O
  | _ -> o

(** val prep_bseq : nat -> nat -> ckind -> out -> out **)

let prep_bseq n0 k ck o =
  let o1 =
    put (indent_to (nl_if (Nat.ltb O k) o) n0) ((Npos (XI (XO (XI (XI (XO
      XH)))))) :: [])
  in
  (match ck with
   | CInline -> space_or_indent o1 false (add n0 (S (S O)))
   | CBSeq -> put o1 (lF :: [])
   | CBMap -> o1)

(** val prep_bmap_key : nat -> nat -> bool -> out -> out **)

let prep_bmap_key n0 k long o =
  let o1 = nl_if (Nat.ltb O k) o in
  if long
  then space_or_indent
         (put (indent_to o1 n0) ((Npos (XI (XI (XI (XI (XI XH)))))) :: []))
         true (add n0 (S O))
  else space_or_indent o1 false n0

(** val prep_bmap_val : nat -> bool -> ckind -> out -> out **)

let prep_bmap_val n0 long ck o =
  if long
  then let o1 =
         put (indent_to (put o (lF :: [])) n0) ((Npos (XO (XI (XO (XI (XI
           XH)))))) :: [])
       in
       (match ck with
        | CInline -> space_or_indent o1 true (add n0 (S O))
        | _ -> o1)
  else let o1 = put o ((Npos (XO (XI (XO (XI (XI XH)))))) :: []) in
       (match ck with
        | CInline -> space_or_indent o1 true (add n0 (S (S O)))
        | _ -> put o1 (lF :: []))

(** val prep_fseq : nat -> nat -> ckind -> out -> out **)

let prep_fseq li k _ o =
  let o1 =
    put (indent_to o li)
      ((if Nat.eqb k O
        then Npos (XI (XI (XO (XI (XI (XO XH))))))
        else Npos (XO (XO (XI (XI (XO XH)))))) :: [])
  in
  space_or_indent o1 (Nat.ltb O k) li

(** val prep_fmap_key : nat -> nat -> bool -> out -> out **)

let prep_fmap_key li k long o =
  let o0 = indent_to o li in
  let o1 =
    if long
    then put o0
           (if Nat.eqb k O
            then (Npos (XI (XI (XO (XI (XI (XI XH))))))) :: (sP :: ((Npos (XI
                   (XI (XI (XI (XI XH)))))) :: []))
            else (Npos (XO (XO (XI (XI (XO XH)))))) :: (sP :: ((Npos (XI (XI
                   (XI (XI (XI XH)))))) :: [])))
    else put o0
           ((if Nat.eqb k O
             then Npos (XI (XI (XO (XI (XI (XI XH))))))
             else Npos (XO (XO (XI (XI (XO XH)))))) :: [])
  in
  space_or_indent o1 (Nat.ltb O k) li

(** val prep_fmap_val : nat -> ckind -> out -> out **)

let prep_fmap_val li _ o =
  space_or_indent
    (put (indent_to o li) ((Npos (XO (XI (XO (XI (XI XH)))))) :: [])) true li

(** val is_nullb : item -> bool **)

let is_nullb = function
| Null -> true
| _ -> false

(** val emit_node :
    nat -> nat -> nat -> (ckind -> out -> out) -> item -> out -> out **)

let rec emit_node d li gi prep t o =
  match t with
  | Null -> o
  | Scalar s ->
    let s' = nums s in
    put (prep CInline o) (scalar_bytes (Nat.leb (S (S (S (S O)))) d) li s')
  | Lst l ->
    let flow = Nat.leb (S (S (S O))) d in
    let o0 = prep (if flow then CInline else CBSeq) o in
    let (o1, k) =
      let rec go l0 k o1 =
        match l0 with
        | [] -> (o1, k)
        | x :: r ->
          if is_nullb x
          then go r k o1
          else go r (S k)
                 (emit_node (S d) (add gi (S (S O))) (add gi (S (S O)))
                   (if flow
                    then prep_fseq (sub gi (S (S O))) k
                    else prep_bseq gi k) x o1)
      in go l O o0
    in
    if Nat.eqb k O
    then put (indent_to o1 gi) ((Npos (XI (XI (XO (XI (XI (XO
           XH))))))) :: ((Npos (XI (XO (XI (XI (XI (XO XH))))))) :: []))
    else if flow
         then put (indent_to o1 gi) ((Npos (XI (XO (XI (XI (XI (XO
                XH))))))) :: [])
         else o1
  | Map m ->
    let flow = Nat.leb (S (S (S O))) d in
    let o0 = prep (if flow then CInline else CBMap) o in
    let (o1, k) =
      let rec go m0 k o1 =
        match m0 with
        | [] -> (o1, k)
        | p :: r ->
          let (key, x) = p in
          if is_nullb x
          then go r k o1
          else let ks = nums key in
               let f = scalar_fmt flow ks in
               let long = long_key f ks in
               let ok =
                 put
                   (if flow
                    then prep_fmap_key (sub gi (S (S O))) k long o1
                    else prep_bmap_key gi k long o1)
                   (scalar_bytes_f f (add gi (S (S O))) ks)
               in
               go r (S k)
                 (emit_node (S d) (add gi (S (S O))) (add gi (S (S O)))
                   (if flow
                    then prep_fmap_val (sub gi (S (S O)))
                    else prep_bmap_val gi long) x ok)
      in go m O o0
    in
    if Nat.eqb k O
    then put (indent_to o1 gi) ((Npos (XI (XI (XO (XI (XI (XI
           XH))))))) :: ((Npos (XI (XO (XI (XI (XI (XI XH))))))) :: []))
    else if flow
         then put (indent_to o1 gi) ((Npos (XI (XO (XI (XI (XI (XI
                XH))))))) :: [])
         else o1

(** val emit_octs : item -> octs **)

let emit_octs t =
  rev (emit_node O (S (S O)) O prep_top t [])

(** val emit_doc : item -> bytes **)

let emit_doc t =
  unnums (emit_octs t)

(** val span_plain : octs -> octs * octs **)

let rec span_plain l = match l with
| [] -> ([], [])
| c :: r ->
  if plain_class c
  then let (a, b) = span_plain r in ((c :: a), b)
  else ([], l)

(** val hex_of : n -> n option **)

let hex_of c =
  if (&&) (N.leb (Npos (XO (XO (XO (XO (XI XH)))))) c)
       (N.leb c (Npos (XI (XO (XO (XI (XI XH)))))))
  then Some (N.sub c (Npos (XO (XO (XO (XO (XI XH)))))))
  else if (&&) (N.leb (Npos (XI (XO (XO (XO (XO (XO XH))))))) c)
            (N.leb c (Npos (XO (XI (XI (XO (XO (XO XH))))))))
       then Some (N.sub c (Npos (XI (XI (XI (XO (XI XH)))))))
       else if (&&) (N.leb (Npos (XI (XO (XO (XO (XO (XI XH))))))) c)
                 (N.leb c (Npos (XO (XI (XI (XO (XO (XI XH))))))))
            then Some (N.sub c (Npos (XI (XI (XI (XO (XI (XO XH))))))))
            else None

(** val parse_hex : nat -> n -> octs -> (n * octs) option **)

let rec parse_hex n0 acc l =
  match n0 with
  | O -> Some (acc, l)
  | S n' ->
    (match l with
     | [] -> None
     | c :: r ->
       (match hex_of c with
        | Some d ->
          parse_hex n' (N.add (N.mul acc (Npos (XO (XO (XO (XO XH)))))) d) r
        | None -> None))

(** val esc_encode : n -> octs option **)

let esc_encode v =
  if (||)
       ((&&)
         (N.leb (Npos (XO (XO (XO (XO (XO (XO (XO (XO (XO (XO (XO (XI (XI (XO
           (XI XH)))))))))))))))) v)
         (N.leb v (Npos (XI (XI (XI (XI (XI (XI (XI (XI (XI (XI (XI (XI (XI
           (XO (XI XH))))))))))))))))))
       (N.ltb (Npos (XI (XI (XI (XI (XI (XI (XI (XI (XI (XI (XI (XI (XI (XI
         (XI (XI (XO (XO (XO (XO XH))))))))))))))))))))) v)
  then None
  else if N.leb v (Npos (XI (XI (XI (XI (XI (XI XH)))))))
       then Some (v :: [])
       else if N.leb v (Npos (XI (XI (XI (XI (XI (XI (XI (XI (XI (XI
                 XH)))))))))))
            then Some
                   ((N.add (Npos (XO (XO (XO (XO (XO (XO (XI XH))))))))
                      (N.div v (Npos (XO (XO (XO (XO (XO (XO XH))))))))) :: (
                   (N.add (Npos (XO (XO (XO (XO (XO (XO (XO XH))))))))
                     (N.modulo v (Npos (XO (XO (XO (XO (XO (XO XH))))))))) :: []))
            else if N.leb v (Npos (XI (XI (XI (XI (XI (XI (XI (XI (XI (XI (XI
                      (XI (XI (XI (XI XH))))))))))))))))
                 then Some
                        ((N.add (Npos (XO (XO (XO (XO (XO (XI (XI XH))))))))
                           (N.div v (Npos (XO (XO (XO (XO (XO (XO (XO (XO (XO
                             (XO (XO (XO XH))))))))))))))) :: ((N.add (Npos
                                                                 (XO (XO (XO
                                                                 (XO (XO (XO
                                                                 (XO
                                                                 XH))))))))
                                                                 (N.modulo
                                                                   (N.div v
                                                                    (Npos (XO
                                                                    (XO (XO
                                                                    (XO (XO
                                                                    (XO
                                                                    XH))))))))
                                                                   (Npos (XO
                                                                   (XO (XO
                                                                   (XO (XO
                                                                   (XO
                                                                   XH))))))))) :: (
                        (N.add (Npos (XO (XO (XO (XO (XO (XO (XO XH))))))))
                          (N.modulo v (Npos (XO (XO (XO (XO (XO (XO XH))))))))) :: [])))
                 else Some
                        ((N.add (Npos (XO (XO (XO (XO (XI (XI (XI XH))))))))
                           (N.div v (Npos (XO (XO (XO (XO (XO (XO (XO (XO (XO
                             (XO (XO (XO (XO (XO (XO (XO (XO (XO
                             XH))))))))))))))))))))) :: ((N.add (Npos (XO (XO
                                                           (XO (XO (XO (XO
                                                           (XO XH))))))))
                                                           (N.modulo
                                                             (N.div v (Npos
                                                               (XO (XO (XO
                                                               (XO (XO (XO
                                                               (XO (XO (XO
                                                               (XO (XO (XO
                                                               XH))))))))))))))
                                                             (Npos (XO (XO
                                                             (XO (XO (XO (XO
                                                             XH))))))))) :: (
                        (N.add (Npos (XO (XO (XO (XO (XO (XO (XO XH))))))))
                          (N.modulo
                            (N.div v (Npos (XO (XO (XO (XO (XO (XO XH))))))))
                            (Npos (XO (XO (XO (XO (XO (XO XH))))))))) :: (
                        (N.add (Npos (XO (XO (XO (XO (XO (XO (XO XH))))))))
                          (N.modulo v (Npos (XO (XO (XO (XO (XO (XO XH))))))))) :: []))))

(** val esc_hex : nat -> octs -> (octs * octs) option **)

let esc_hex n0 l =
  match parse_hex n0 N0 l with
  | Some p ->
    let (v, r) = p in
    (match esc_encode v with
     | Some e -> Some (e, r)
     | None -> None)
  | None -> None

(** val unescape : n -> octs -> (octs * octs) option **)

let unescape c r =
  if N.eqb c (Npos (XO (XO (XO (XO (XI XH))))))
  then Some ((N0 :: []), r)
  else if N.eqb c (Npos (XI (XO (XO (XO (XO (XI XH)))))))
       then Some (((Npos (XI (XI XH))) :: []), r)
       else if N.eqb c (Npos (XO (XI (XO (XO (XO (XI XH)))))))
            then Some (((Npos (XO (XO (XO XH)))) :: []), r)
            else if (||) (N.eqb c (Npos (XO (XO (XI (XO (XI (XI XH))))))))
                      (N.eqb c (Npos (XI (XO (XO XH)))))
                 then Some (((Npos (XI (XO (XO XH)))) :: []), r)
                 else if N.eqb c (Npos (XO (XI (XI (XI (XO (XI XH)))))))
                      then Some (((Npos (XO (XI (XO XH)))) :: []), r)
                      else if N.eqb c (Npos (XO (XI (XI (XO (XI (XI XH)))))))
                           then Some (((Npos (XI (XI (XO XH)))) :: []), r)
                           else if N.eqb c (Npos (XO (XI (XI (XO (XO (XI
                                     XH)))))))
                                then Some (((Npos (XO (XO (XI XH)))) :: []),
                                       r)
                                else if N.eqb c (Npos (XO (XI (XO (XO (XI (XI
                                          XH)))))))
                                     then Some (((Npos (XI (XO (XI
                                            XH)))) :: []), r)
                                     else if N.eqb c (Npos (XI (XO (XI (XO
                                               (XO (XI XH)))))))
                                          then Some (((Npos (XI (XI (XO (XI
                                                 XH))))) :: []), r)
                                          else if N.eqb c (Npos (XO (XO (XO
                                                    (XO (XO XH))))))
                                               then Some (((Npos (XO (XO (XO
                                                      (XO (XO
                                                      XH)))))) :: []), r)
                                               else if N.eqb c (Npos (XO (XI
                                                         (XO (XO (XO XH))))))
                                                    then Some (((Npos (XO (XI
                                                           (XO (XO (XO
                                                           XH)))))) :: []), r)
                                                    else if N.eqb c (Npos (XI
                                                              (XI (XI (XO (XO
                                                              XH))))))
                                                         then Some (((Npos
                                                                (XI (XI (XI
                                                                (XO (XO
                                                                XH)))))) :: []),
                                                                r)
                                                         else if N.eqb c
                                                                   (Npos (XO
                                                                   (XO (XI
                                                                   (XI (XI
                                                                   (XO
                                                                   XH)))))))
                                                              then Some
                                                                    (((Npos
                                                                    (XO (XO
                                                                    (XI (XI
                                                                    (XI (XO
                                                                    XH))))))) :: []),
                                                                    r)
                                                              else if 
                                                                    N.eqb c
                                                                    (Npos (XI
                                                                    (XI (XI
                                                                    (XI (XO
                                                                    XH))))))
                                                                   then 
                                                                    Some
                                                                    (((Npos
                                                                    (XI (XI
                                                                    (XI (XI
                                                                    (XO
                                                                    XH)))))) :: []),
                                                                    r)
                                                                   else 
                                                                    if 
                                                                    N.eqb c
                                                                    (Npos (XO
                                                                    (XI (XI
                                                                    (XI (XO
                                                                    (XO
                                                                    XH)))))))
                                                                    then 
                                                                    Some
                                                                    (((Npos
                                                                    (XI (XO
                                                                    (XI (XO
                                                                    (XO (XO
                                                                    (XO
                                                                    XH)))))))) :: []),
                                                                    r)
                                                                    else 
                                                                    if 
                                                                    N.eqb c
                                                                    (Npos (XI
                                                                    (XI (XI
                                                                    (XI (XI
                                                                    (XO
                                                                    XH)))))))
                                                                    then 
                                                                    Some
                                                                    (((Npos
                                                                    (XO (XO
                                                                    (XO (XO
                                                                    (XO (XI
                                                                    (XO
                                                                    XH)))))))) :: []),
                                                                    r)
                                                                    else 
                                                                    if 
                                                                    N.eqb c
                                                                    (Npos (XO
                                                                    (XO (XI
                                                                    (XI (XO
                                                                    (XO
                                                                    XH)))))))
                                                                    then 
                                                                    Some
                                                                    (((Npos
                                                                    (XO (XI
                                                                    (XO (XO
                                                                    (XO (XI
                                                                    (XI
                                                                    XH)))))))) :: ((Npos
                                                                    (XO (XO
                                                                    (XO (XO
                                                                    (XO (XO
                                                                    (XO
                                                                    XH)))))))) :: ((Npos
                                                                    (XO (XO
                                                                    (XO (XI
                                                                    (XO (XI
                                                                    (XO
                                                                    XH)))))))) :: []))),
                                                                    r)
                                                                    else 
                                                                    if 
                                                                    N.eqb c
                                                                    (Npos (XO
                                                                    (XO (XO
                                                                    (XO (XI
                                                                    (XO
                                                                    XH)))))))
                                                                    then 
                                                                    Some
                                                                    (((Npos
                                                                    (XO (XI
                                                                    (XO (XO
                                                                    (XO (XI
                                                                    (XI
                                                                    XH)))))))) :: ((Npos
                                                                    (XO (XO
                                                                    (XO (XO
                                                                    (XO (XO
                                                                    (XO
                                                                    XH)))))))) :: ((Npos
                                                                    (XI (XO
                                                                    (XO (XI
                                                                    (XO (XI
                                                                    (XO
                                                                    XH)))))))) :: []))),
                                                                    r)
                                                                    else 
                                                                    if 
                                                                    N.eqb c
                                                                    (Npos (XO
                                                                    (XO (XO
                                                                    (XI (XI
                                                                    (XI
                                                                    XH)))))))
                                                                    then 
                                                                    esc_hex
                                                                    (S (S O))
                                                                    r
                                                                    else 
                                                                    if 
                                                                    N.eqb c
                                                                    (Npos (XI
                                                                    (XO (XI
                                                                    (XO (XI
                                                                    (XI
                                                                    XH)))))))
                                                                    then 
                                                                    esc_hex
                                                                    (S (S (S
                                                                    (S O)))) r
                                                                    else 
                                                                    if 
                                                                    N.eqb c
                                                                    (Npos (XI
                                                                    (XO (XI
                                                                    (XO (XI
                                                                    (XO
                                                                    XH)))))))
                                                                    then 
                                                                    esc_hex
                                                                    (S (S (S
                                                                    (S (S (S
                                                                    (S (S
                                                                    O))))))))
                                                                    r
                                                                    else None

(** val dq_scan : nat -> octs -> octs -> (octs * octs) option **)

let rec dq_scan fuel l acc =
  match fuel with
  | O -> None
  | S f ->
    (match l with
     | [] -> None
     | c :: r ->
       if N.eqb c (Npos (XO (XI (XO (XO (XO XH))))))
       then Some ((rev acc), r)
       else if N.eqb c (Npos (XO (XO (XI (XI (XI (XO XH)))))))
            then (match r with
                  | [] -> None
                  | e :: r' ->
                    (match unescape e r' with
                     | Some p ->
                       let (bs, r'') = p in dq_scan f r'' (rev_append bs acc)
                     | None -> None))
            else if (||)
                      ((||) (N.eqb c (Npos (XO (XI (XO XH)))))
                        (N.eqb c (Npos (XI (XO (XI XH))))))
                      (N.eqb c (Npos (XO (XO XH))))
                 then None
                 else dq_scan f r (c :: acc))

(** val lit_scan :
    octs -> nat -> bool -> bool -> bool -> nat -> octs ->
    ((octs * octs) * nat) option **)

let rec lit_scan l indent detect past at_ls c acc =
  match l with
  | [] ->
    if at_ls
    then Some (((if past then (Npos (XO (XI (XO XH)))) :: acc else acc), []),
           c)
    else Some ((acc, []), c)
  | ch :: r ->
    if at_ls
    then if (&&) (N.eqb ch (Npos (XO (XO (XO (XO (XO XH)))))))
              ((||) (Nat.ltb c indent) detect)
         then lit_scan r indent detect past true (S c) acc
         else let indent' = if detect then Nat.max indent c else indent in
              if (&&) (N.eqb ch (Npos (XI (XO (XO XH))))) (Nat.ltb c indent')
              then None
              else if (||)
                        ((||) (N.eqb ch (Npos (XI (XO (XI XH)))))
                          (N.eqb ch N0)) (N.eqb ch (Npos (XO (XO XH))))
                   then None
                   else let acc' =
                          if past
                          then (Npos (XO (XI (XO XH)))) :: acc
                          else acc
                        in
                        if N.eqb ch (Npos (XO (XI (XO XH))))
                        then lit_scan r indent' detect true true O acc'
                        else if Nat.ltb c indent'
                             then Some ((acc', l), c)
                             else lit_scan r indent' false true false (S c)
                                    (ch :: acc')
    else if N.eqb ch (Npos (XO (XI (XO XH))))
         then lit_scan r indent detect past true O acc
         else if (||)
                   ((||) (N.eqb ch (Npos (XI (XO (XI XH))))) (N.eqb ch N0))
                   (N.eqb ch (Npos (XO (XO XH))))
              then None
              else lit_scan r indent detect past false (S c) (ch :: acc)

(** val drop_lfs : octs -> octs **)

let rec drop_lfs racc = match racc with
| [] -> []
| c :: r -> if N.eqb c (Npos (XO (XI (XO XH)))) then drop_lfs r else racc

(** val clip : octs -> octs **)

let clip racc =
  match drop_lfs racc with
  | [] -> []
  | n0 :: l ->
    let core = n0 :: l in
    (match racc with
     | [] -> []
     | c :: _ ->
       if N.eqb c (Npos (XO (XI (XO XH))))
       then rev ((Npos (XO (XI (XO XH)))) :: core)
       else rev core)

(** val lit_load : octs -> nat -> ((octs * octs) * nat) option **)

let lit_load l min_indent =
  match l with
  | [] -> Some (([], []), O)
  | ch :: r ->
    if N.eqb ch (Npos (XO (XI (XO XH))))
    then (match lit_scan r min_indent true false true O [] with
          | Some p ->
            let (p0, c) = p in
            let (racc, rest) = p0 in Some (((clip racc), rest), c)
          | None -> None)
    else None

(** val skip_sp : octs -> nat -> octs * nat **)

let rec skip_sp l c =
  match l with
  | [] -> ([], c)
  | ch :: r ->
    if N.eqb ch (Npos (XO (XO (XO (XO (XO XH))))))
    then skip_sp r (S c)
    else (l, c)

(** val next_line : octs -> nat -> bool -> (octs * nat) option **)

let rec next_line l c seen_lf =
  match l with
  | [] -> Some ([], c)
  | ch :: r ->
    if N.eqb ch (Npos (XO (XI (XO XH))))
    then next_line r O true
    else if N.eqb ch (Npos (XO (XO (XO (XO (XO XH))))))
         then if seen_lf then next_line r (S c) true else None
         else if seen_lf then Some (l, c) else None

(** val to_ls : octs -> nat -> (octs * nat) option **)

let to_ls l c =
  next_line l c false

(** val starts_blank_or_end : octs -> bool **)

let starts_blank_or_end = function
| [] -> true
| ch :: _ ->
  (||) (N.eqb ch (Npos (XO (XO (XO (XO (XO XH)))))))
    (N.eqb ch (Npos (XO (XI (XO XH)))))

(** val build_map : (bytes * item) list -> item **)

let build_map kvs =
  Map (fold_left (fun m kv -> map_set m (fst kv) (snd kv)) kvs [])

(** val flow_scalar : octs -> nat -> ((octs * octs) * nat) option **)

let flow_scalar l c =
  match l with
  | [] -> None
  | ch :: r ->
    if N.eqb ch (Npos (XO (XI (XO (XO (XO XH))))))
    then (match dq_scan (S (length r)) r [] with
          | Some p ->
            let (s, r') = p in
            Some ((s, r'), (add c (sub (length l) (length r'))))
          | None -> None)
    else if plain_class ch
         then let (w, r') = span_plain l in Some ((w, r'), (add c (length w)))
         else None

(** val flow_node : nat -> octs -> nat -> ((item * octs) * nat) option **)

let rec flow_node fuel l c =
  match fuel with
  | O -> None
  | S f ->
    (match l with
     | [] -> None
     | ch :: r ->
       if N.eqb ch (Npos (XI (XI (XO (XI (XI (XO XH)))))))
       then let (r1, c1) = skip_sp r (S c) in
            (match r1 with
             | [] -> flow_seq_items f r1 c1 []
             | n0 :: r2 ->
               (match n0 with
                | N0 -> flow_seq_items f r1 c1 []
                | Npos p ->
                  (match p with
                   | XI p0 ->
                     (match p0 with
                      | XO p1 ->
                        (match p1 with
                         | XI p2 ->
                           (match p2 with
                            | XI p3 ->
                              (match p3 with
                               | XI p4 ->
                                 (match p4 with
                                  | XO p5 ->
                                    (match p5 with
                                     | XH -> Some (((Lst []), r2), (S c1))
                                     | _ -> flow_seq_items f r1 c1 [])
                                  | _ -> flow_seq_items f r1 c1 [])
                               | _ -> flow_seq_items f r1 c1 [])
                            | _ -> flow_seq_items f r1 c1 [])
                         | _ -> flow_seq_items f r1 c1 [])
                      | _ -> flow_seq_items f r1 c1 [])
                   | _ -> flow_seq_items f r1 c1 [])))
       else if N.eqb ch (Npos (XI (XI (XO (XI (XI (XI XH)))))))
            then let (r1, c1) = skip_sp r (S c) in
                 (match r1 with
                  | [] -> flow_map_items f r1 c1 []
                  | n0 :: r2 ->
                    (match n0 with
                     | N0 -> flow_map_items f r1 c1 []
                     | Npos p ->
                       (match p with
                        | XI p0 ->
                          (match p0 with
                           | XO p1 ->
                             (match p1 with
                              | XI p2 ->
                                (match p2 with
                                 | XI p3 ->
                                   (match p3 with
                                    | XI p4 ->
                                      (match p4 with
                                       | XI p5 ->
                                         (match p5 with
                                          | XH ->
                                            Some (((Map []), r2), (S c1))
                                          | _ -> flow_map_items f r1 c1 [])
                                       | _ -> flow_map_items f r1 c1 [])
                                    | _ -> flow_map_items f r1 c1 [])
                                 | _ -> flow_map_items f r1 c1 [])
                              | _ -> flow_map_items f r1 c1 [])
                           | _ -> flow_map_items f r1 c1 [])
                        | _ -> flow_map_items f r1 c1 [])))
            else (match flow_scalar l c with
                  | Some p ->
                    let (p0, c') = p in
                    let (s, r') = p0 in Some (((Scalar (unnums s)), r'), c')
                  | None -> None))

(** val flow_seq_items :
    nat -> octs -> nat -> item list -> ((item * octs) * nat) option **)

and flow_seq_items fuel l c acc =
  match fuel with
  | O -> None
  | S f ->
    (match flow_node f l c with
     | Some p ->
       let (p0, c1) = p in
       let (x, r) = p0 in
       let (r1, c2) = skip_sp r c1 in
       (match r1 with
        | [] -> None
        | n0 :: r2 ->
          (match n0 with
           | N0 -> None
           | Npos p1 ->
             (match p1 with
              | XI p2 ->
                (match p2 with
                 | XO p3 ->
                   (match p3 with
                    | XI p4 ->
                      (match p4 with
                       | XI p5 ->
                         (match p5 with
                          | XI p6 ->
                            (match p6 with
                             | XO p7 ->
                               (match p7 with
                                | XH ->
                                  Some (((Lst (rev (x :: acc))), r2), (S c2))
                                | _ -> None)
                             | _ -> None)
                          | _ -> None)
                       | _ -> None)
                    | _ -> None)
                 | _ -> None)
              | XO p2 ->
                (match p2 with
                 | XO p3 ->
                   (match p3 with
                    | XI p4 ->
                      (match p4 with
                       | XI p5 ->
                         (match p5 with
                          | XO p6 ->
                            (match p6 with
                             | XH ->
                               let (r3, c3) = skip_sp r2 (S c2) in
                               flow_seq_items f r3 c3 (x :: acc)
                             | _ -> None)
                          | _ -> None)
                       | _ -> None)
                    | _ -> None)
                 | _ -> None)
              | XH -> None)))
     | None -> None)

(** val flow_map_items :
    nat -> octs -> nat -> (bytes * item) list -> ((item * octs) * nat) option **)

and flow_map_items fuel l c acc =
  match fuel with
  | O -> None
  | S f ->
    (match l with
     | [] ->
       let p = (l, c) in
       let explicit = false in
       let (l0, c0) = p in
       (match flow_scalar l0 c0 with
        | Some p0 ->
          let (p1, c1) = p0 in
          let (k, r) = p1 in
          let (r1, c2) = skip_sp r c1 in
          (match r1 with
           | [] -> None
           | n0 :: l1 ->
             (match n0 with
              | N0 -> None
              | Npos p2 ->
                (match p2 with
                 | XO p3 ->
                   (match p3 with
                    | XI p4 ->
                      (match p4 with
                       | XO p5 ->
                         (match p5 with
                          | XI p6 ->
                            (match p6 with
                             | XI p7 ->
                               (match p7 with
                                | XH ->
                                  (match l1 with
                                   | [] -> None
                                   | n1 :: r2 ->
                                     (match n1 with
                                      | N0 -> None
                                      | Npos p8 ->
                                        (match p8 with
                                         | XO p9 ->
                                           (match p9 with
                                            | XO p10 ->
                                              (match p10 with
                                               | XO p11 ->
                                                 (match p11 with
                                                  | XO p12 ->
                                                    (match p12 with
                                                     | XO p13 ->
                                                       (match p13 with
                                                        | XH ->
                                                          if (&&)
                                                               (negb explicit)
                                                               (Nat.ltb (S (S
                                                                 (S (S (S (S
                                                                 (S (S (S (S
                                                                 (S (S (S (S
                                                                 (S (S (S (S
                                                                 (S (S (S (S
                                                                 (S (S (S (S
                                                                 (S (S (S (S
                                                                 (S (S (S (S
                                                                 (S (S (S (S
                                                                 (S (S (S (S
                                                                 (S (S (S (S
                                                                 (S (S (S (S
                                                                 (S (S (S (S
                                                                 (S (S (S (S
                                                                 (S (S (S (S
                                                                 (S (S (S (S
                                                                 (S (S (S (S
                                                                 (S (S (S (S
                                                                 (S (S (S (S
                                                                 (S (S (S (S
                                                                 (S (S (S (S
                                                                 (S (S (S (S
                                                                 (S (S (S (S
                                                                 (S (S (S (S
                                                                 (S (S (S (S
                                                                 (S (S (S (S
                                                                 (S (S (S (S
                                                                 (S (S (S (S
                                                                 (S (S (S (S
                                                                 (S (S (S (S
                                                                 (S (S (S (S
                                                                 (S (S (S (S
                                                                 (S (S (S (S
                                                                 (S (S (S (S
                                                                 (S (S (S (S
                                                                 (S (S (S (S
                                                                 (S (S (S (S
                                                                 (S (S (S (S
                                                                 (S (S (S (S
                                                                 (S (S (S (S
                                                                 (S (S (S (S
                                                                 (S (S (S (S
                                                                 (S (S (S (S
                                                                 (S (S (S (S
                                                                 (S (S (S (S
                                                                 (S (S (S (S
                                                                 (S (S (S (S
                                                                 (S (S (S (S
                                                                 (S (S (S (S
                                                                 (S (S (S (S
                                                                 (S (S (S (S
                                                                 (S (S (S (S
                                                                 (S (S (S (S
                                                                 (S (S (S (S
                                                                 (S (S (S (S
                                                                 (S (S (S (S
                                                                 (S (S (S (S
                                                                 (S (S (S (S
                                                                 (S (S (S (S
                                                                 (S (S (S (S
                                                                 (S (S (S (S
                                                                 (S (S (S (S
                                                                 (S (S (S (S
                                                                 (S (S (S (S
                                                                 (S (S (S (S
                                                                 (S (S (S (S
                                                                 (S (S (S (S
                                                                 (S (S (S (S
                                                                 (S (S (S (S
                                                                 (S (S (S (S
                                                                 (S (S (S (S
                                                                 (S (S (S (S
                                                                 (S (S (S (S
                                                                 (S (S (S (S
                                                                 (S (S (S (S
                                                                 (S (S (S (S
                                                                 (S (S (S (S
                                                                 (S (S (S (S
                                                                 (S (S (S (S
                                                                 (S (S (S (S
                                                                 (S (S (S (S
                                                                 (S (S (S (S
                                                                 (S (S (S (S
                                                                 (S (S (S (S
                                                                 (S (S (S (S
                                                                 (S (S (S (S
                                                                 (S (S (S (S
                                                                 (S (S (S (S
                                                                 (S (S (S (S
                                                                 (S (S (S (S
                                                                 (S (S (S (S
                                                                 (S (S (S (S
                                                                 (S (S (S (S
                                                                 (S (S (S (S
                                                                 (S (S (S (S
                                                                 (S (S (S (S
                                                                 (S (S (S (S
                                                                 (S (S (S (S
                                                                 (S (S (S (S
                                                                 (S (S (S (S
                                                                 (S (S (S (S
                                                                 (S (S (S (S
                                                                 (S (S (S (S
                                                                 (S (S (S (S
                                                                 (S (S (S (S
                                                                 (S (S (S (S
                                                                 (S (S (S (S
                                                                 (S (S (S (S
                                                                 (S (S (S (S
                                                                 (S (S (S (S
                                                                 (S (S (S (S
                                                                 (S (S (S (S
                                                                 (S (S (S (S
                                                                 (S (S (S (S
                                                                 (S (S (S (S
                                                                 (S (S (S (S
                                                                 (S (S (S (S
                                                                 (S (S (S (S
                                                                 (S (S (S (S
                                                                 (S (S (S (S
                                                                 (S (S (S (S
                                                                 (S (S (S (S
                                                                 (S (S (S (S
                                                                 (S (S (S (S
                                                                 (S (S (S (S
                                                                 (S (S (S (S
                                                                 (S (S (S (S
                                                                 (S (S (S (S
                                                                 (S (S (S (S
                                                                 (S (S (S (S
                                                                 (S (S (S (S
                                                                 (S (S (S (S
                                                                 (S (S (S (S
                                                                 (S (S (S (S
                                                                 (S (S (S (S
                                                                 (S (S (S (S
                                                                 (S (S (S (S
                                                                 (S (S (S (S
                                                                 (S (S (S (S
                                                                 (S (S (S (S
                                                                 (S (S (S (S
                                                                 (S (S (S (S
                                                                 (S (S (S (S
                                                                 (S (S (S (S
                                                                 (S (S (S (S
                                                                 (S (S (S (S
                                                                 (S (S (S (S
                                                                 (S (S (S (S
                                                                 (S (S (S (S
                                                                 (S (S (S (S
                                                                 (S (S (S (S
                                                                 (S (S (S (S
                                                                 (S (S (S (S
                                                                 (S (S (S (S
                                                                 (S (S (S (S
                                                                 (S (S (S (S
                                                                 (S (S (S (S
                                                                 (S (S (S (S
                                                                 (S (S (S (S
                                                                 (S (S (S (S
                                                                 (S (S (S (S
                                                                 (S (S (S (S
                                                                 (S (S (S (S
                                                                 (S (S (S (S
                                                                 (S (S (S (S
                                                                 (S (S (S (S
                                                                 (S (S (S (S
                                                                 (S (S (S (S
                                                                 (S (S (S (S
                                                                 (S (S (S (S
                                                                 (S (S (S (S
                                                                 (S (S (S (S
                                                                 (S (S (S (S
                                                                 (S (S (S (S
                                                                 (S (S (S (S
                                                                 (S (S (S (S
                                                                 (S (S (S (S
                                                                 (S (S (S (S
                                                                 (S (S (S (S
                                                                 (S (S (S (S
                                                                 (S (S (S (S
                                                                 (S (S (S (S
                                                                 (S (S (S (S
                                                                 (S (S (S (S
                                                                 (S (S (S (S
                                                                 (S (S (S (S
                                                                 (S (S (S (S
                                                                 (S (S (S (S
                                                                 (S (S (S (S
                                                                 (S (S (S (S
                                                                 (S (S (S (S
                                                                 (S (S (S (S
                                                                 (S (S (S (S
                                                                 (S (S (S (S
                                                                 (S (S (S (S
                                                                 (S (S (S (S
                                                                 (S (S (S (S
                                                                 (S (S (S (S
                                                                 (S (S (S (S
                                                                 (S (S (S (S
                                                                 (S (S (S (S
                                                                 (S (S (S (S
                                                                 (S (S (S (S
                                                                 (S (S (S (S
                                                                 (S (S (S (S
                                                                 (S (S (S (S
                                                                 (S (S (S (S
                                                                 (S (S (S (S
                                                                 (S (S (S (S
                                                                 (S (S (S (S
                                                                 (S (S (S (S
                                                                 (S (S (S (S
                                                                 (S (S (S (S
                                                                 (S (S (S (S
                                                                 (S (S (S (S
                                                                 (S (S (S (S
                                                                 (S (S (S (S
                                                                 (S (S (S (S
                                                                 (S (S (S (S
                                                                 (S (S (S (S
                                                                 (S (S (S (S
                                                                 (S (S (S (S
                                                                 (S (S (S (S
                                                                 (S (S (S (S
                                                                 (S (S (S (S
                                                                 (S (S (S (S
                                                                 (S (S (S (S
                                                                 (S (S (S (S
                                                                 (S (S (S (S
                                                                 (S (S (S (S
                                                                 (S (S (S (S
                                                                 (S (S (S (S
                                                                 (S (S (S (S
                                                                 (S (S (S (S
                                                                 (S (S (S (S
                                                                 (S (S (S (S
                                                                 (S (S (S (S
                                                                 (S (S (S (S
                                                                 (S (S (S (S
                                                                 (S (S (S (S
                                                                 (S (S (S (S
                                                                 (S (S (S (S
                                                                 (S (S (S (S
                                                                 (S (S (S (S
                                                                 (S (S (S (S
                                                                 (S (S (S (S
                                                                 (S (S (S (S
                                                                 (S (S (S (S
                                                                 (S (S (S (S
                                                                 (S (S (S (S
                                                                 (S (S (S (S
                                                                 (S (S (S (S
                                                                 (S (S (S (S
                                                                 (S (S (S (S
                                                                 (S (S (S (S
                                                                 (S (S
                                                                 O))))))))))))))))))))))))))))))))))))))))))))))))))))))))))))))))))))))))))))))))))))))))))))))))))))))))))))))))))))))))))))))))))))))))))))))))))))))))))))))))))))))))))))))))))))))))))))))))))))))))))))))))))))))))))))))))))))))))))))))))))))))))))))))))))))))))))))))))))))))))))))))))))))))))))))))))))))))))))))))))))))))))))))))))))))))))))))))))))))))))))))))))))))))))))))))))))))))))))))))))))))))))))))))))))))))))))))))))))))))))))))))))))))))))))))))))))))))))))))))))))))))))))))))))))))))))))))))))))))))))))))))))))))))))))))))))))))))))))))))))))))))))))))))))))))))))))))))))))))))))))))))))))))))))))))))))))))))))))))))))))))))))))))))))))))))))))))))))))))))))))))))))))))))))))))))))))))))))))))))))))))))))))))))))))))))))))))))))))))))))))))))))))))))))))))))))))))))))))))))))))))))))))))))))))))))))))))))))))))))))))))))))))))))))))))))))))))))))))))))))))))))))))))))))))))))))))))))))))))))))))))))))))))))))))))))))))))))))))))))))))))))))))))))))))))))))))))))))))))))))))))))))))))))))))))))))
                                                                 (sub c1 c0))
                                                          then None
                                                          else let (r3, c3) =
                                                                 skip_sp r2
                                                                   (add c2 (S
                                                                    (S O)))
                                                               in
                                                               (match 
                                                                flow_node f
                                                                  r3 c3 with
                                                                | Some p14 ->
                                                                  let (
                                                                    p15, c4) =
                                                                    p14
                                                                  in
                                                                  let (
                                                                    v, r4) =
                                                                    p15
                                                                  in
                                                                  let (
                                                                    r5, c5) =
                                                                    skip_sp
                                                                    r4 c4
                                                                  in
                                                                  (match r5 with
                                                                   | [] ->
                                                                    None
                                                                   | n2 :: r6 ->
                                                                    (match n2 with
                                                                    | N0 ->
                                                                    None
                                                                    | Npos p16 ->
                                                                    (match p16 with
                                                                    | XI p17 ->
                                                                    (match p17 with
                                                                    | XO p18 ->
                                                                    (match p18 with
                                                                    | XI p19 ->
                                                                    (match p19 with
                                                                    | XI p20 ->
                                                                    (match p20 with
                                                                    | XI p21 ->
                                                                    (match p21 with
                                                                    | XI p22 ->
                                                                    (match p22 with
                                                                    | XH ->
                                                                    Some
                                                                    (((build_map
                                                                    (rev
                                                                    (((unnums
                                                                    k),
                                                                    v) :: acc))),
                                                                    r6), (S
                                                                    c5))
                                                                    | _ ->
                                                                    None)
                                                                    | _ ->
                                                                    None)
                                                                    | _ ->
                                                                    None)
                                                                    | _ ->
                                                                    None)
                                                                    | _ ->
                                                                    None)
                                                                    | _ ->
                                                                    None)
                                                                    | XO p17 ->
                                                                    (match p17 with
                                                                    | XO p18 ->
                                                                    (match p18 with
                                                                    | XI p19 ->
                                                                    (match p19 with
                                                                    | XI p20 ->
                                                                    (match p20 with
                                                                    | XO p21 ->
                                                                    (match p21 with
                                                                    | XH ->
                                                                    let (
                                                                    r7, c7) =
                                                                    skip_sp
                                                                    r6 (S c5)
                                                                    in
                                                                    flow_map_items
                                                                    f r7 c7
                                                                    (((unnums
                                                                    k),
                                                                    v) :: acc)
                                                                    | _ ->
                                                                    None)
                                                                    | _ ->
                                                                    None)
                                                                    | _ ->
                                                                    None)
                                                                    | _ ->
                                                                    None)
                                                                    | _ ->
                                                                    None)
                                                                    | XH ->
                                                                    None)))
                                                                | None -> None)
                                                        | _ -> None)
                                                     | _ -> None)
                                                  | _ -> None)
                                               | _ -> None)
                                            | _ -> None)
                                         | _ -> None)))
                                | _ -> None)
                             | _ -> None)
                          | _ -> None)
                       | _ -> None)
                    | _ -> None)
                 | _ -> None)))
        | None -> None)
     | n0 :: l0 ->
       (match n0 with
        | N0 ->
          let p = (l, c) in
          let explicit = false in
          let (l1, c0) = p in
          (match flow_scalar l1 c0 with
           | Some p0 ->
             let (p1, c1) = p0 in
             let (k, r) = p1 in
             let (r1, c2) = skip_sp r c1 in
             (match r1 with
              | [] -> None
              | n1 :: l2 ->
                (match n1 with
                 | N0 -> None
                 | Npos p2 ->
                   (match p2 with
                    | XO p3 ->
                      (match p3 with
                       | XI p4 ->
                         (match p4 with
                          | XO p5 ->
                            (match p5 with
                             | XI p6 ->
                               (match p6 with
                                | XI p7 ->
                                  (match p7 with
                                   | XH ->
                                     (match l2 with
                                      | [] -> None
                                      | n2 :: r2 ->
                                        (match n2 with
                                         | N0 -> None
                                         | Npos p8 ->
                                           (match p8 with
                                            | XO p9 ->
                                              (match p9 with
                                               | XO p10 ->
                                                 (match p10 with
                                                  | XO p11 ->
                                                    (match p11 with
                                                     | XO p12 ->
                                                       (match p12 with
                                                        | XO p13 ->
                                                          (match p13 with
                                                           | XH ->
                                                             if (&&)
                                                                  (negb
                                                                    explicit)
                                                                  (Nat.ltb (S
                                                                    (S (S (S
                                                                    (S (S (S
                                                                    (S (S (S
                                                                    (S (S (S
                                                                    (S (S (S
                                                                    (S (S (S
                                                                    (S (S (S
                                                                    (S (S (S
                                                                    (S (S (S
                                                                    (S (S (S
                                                                    (S (S (S
                                                                    (S (S (S
                                                                    (S (S (S
                                                                    (S (S (S
                                                                    (S (S (S
                                                                    (S (S (S
                                                                    (S (S (S
                                                                    (S (S (S
                                                                    (S (S (S
                                                                    (S (S (S
                                                                    (S (S (S
                                                                    (S (S (S
                                                                    (S (S (S
                                                                    (S (S (S
                                                                    (S (S (S
                                                                    (S (S (S
                                                                    (S (S (S
                                                                    (S (S (S
                                                                    (S (S (S
                                                                    (S (S (S
                                                                    (S (S (S
                                                                    (S (S (S
                                                                    (S (S (S
                                                                    (S (S (S
                                                                    (S (S (S
                                                                    (S (S (S
                                                                    (S (S (S
                                                                    (S (S (S
                                                                    (S (S (S
                                                                    (S (S (S
                                                                    (S (S (S
                                                                    (S (S (S
                                                                    (S (S (S
                                                                    (S (S (S
                                                                    (S (S (S
                                                                    (S (S (S
                                                                    (S (S (S
                                                                    (S (S (S
                                                                    (S (S (S
                                                                    (S (S (S
                                                                    (S (S (S
                                                                    (S (S (S
                                                                    (S (S (S
                                                                    (S (S (S
                                                                    (S (S (S
                                                                    (S (S (S
                                                                    (S (S (S
                                                                    (S (S (S
                                                                    (S (S (S
                                                                    (S (S (S
                                                                    (S (S (S
                                                                    (S (S (S
                                                                    (S (S (S
                                                                    (S (S (S
                                                                    (S (S (S
                                                                    (S (S (S
                                                                    (S (S (S
                                                                    (S (S (S
                                                                    (S (S (S
                                                                    (S (S (S
                                                                    (S (S (S
                                                                    (S (S (S
                                                                    (S (S (S
                                                                    (S (S (S
                                                                    (S (S (S
                                                                    (S (S (S
                                                                    (S (S (S
                                                                    (S (S (S
                                                                    (S (S (S
                                                                    (S (S (S
                                                                    (S (S (S
                                                                    (S (S (S
                                                                    (S (S (S
                                                                    (S (S (S
                                                                    (S (S (S
                                                                    (S (S (S
                                                                    (S (S (S
                                                                    (S (S (S
                                                                    (S (S (S
                                                                    (S (S (S
                                                                    (S (S (S
                                                                    (S (S (S
                                                                    (S (S (S
                                                                    (S (S (S
                                                                    (S (S (S
                                                                    (S (S (S
                                                                    (S (S (S
                                                                    (S (S (S
                                                                    (S (S (S
                                                                    (S (S (S
                                                                    (S (S (S
                                                                    (S (S (S
                                                                    (S (S (S
                                                                    (S (S (S
                                                                    (S (S (S
                                                                    (S (S (S
                                                                    (S (S (S
                                                                    (S (S (S
                                                                    (S (S (S
                                                                    (S (S (S
                                                                    (S (S (S
                                                                    (S (S (S
                                                                    (S (S (S
                                                                    (S (S (S
                                                                    (S (S (S
                                                                    (S (S (S
                                                                    (S (S (S
                                                                    (S (S (S
                                                                    (S (S (S
                                                                    (S (S (S
                                                                    (S (S (S
                                                                    (S (S (S
                                                                    (S (S (S
                                                                    (S (S (S
                                                                    (S (S (S
                                                                    (S (S (S
                                                                    (S (S (S
                                                                    (S (S (S
                                                                    (S (S (S
                                                                    (S (S (S
                                                                    (S (S (S
                                                                    (S (S (S
                                                                    (S (S (S
                                                                    (S (S (S
                                                                    (S (S (S
                                                                    (S (S (S
                                                                    (S (S (S
                                                                    (S (S (S
                                                                    (S (S (S
                                                                    (S (S (S
                                                                    (S (S (S
                                                                    (S (S (S
                                                                    (S (S (S
                                                                    (S (S (S
                                                                    (S (S (S
                                                                    (S (S (S
                                                                    (S (S (S
                                                                    (S (S (S
                                                                    (S (S (S
                                                                    (S (S (S
                                                                    (S (S (S
                                                                    (S (S (S
                                                                    (S (S (S
                                                                    (S (S (S
                                                                    (S (S (S
                                                                    (S (S (S
                                                                    (S (S (S
                                                                    (S (S (S
                                                                    (S (S (S
                                                                    (S (S (S
                                                                    (S (S (S
                                                                    (S (S (S
                                                                    (S (S (S
                                                                    (S (S (S
                                                                    (S (S (S
                                                                    (S (S (S
                                                                    (S (S (S
                                                                    (S (S (S
                                                                    (S (S (S
                                                                    (S (S (S
                                                                    (S (S (S
                                                                    (S (S (S
                                                                    (S (S (S
                                                                    (S (S (S
                                                                    (S (S (S
                                                                    (S (S (S
                                                                    (S (S (S
                                                                    (S (S (S
                                                                    (S (S (S
                                                                    (S (S (S
                                                                    (S (S (S
                                                                    (S (S (S
                                                                    (S (S (S
                                                                    (S (S (S
                                                                    (S (S (S
                                                                    (S (S (S
                                                                    (S (S (S
                                                                    (S (S (S
                                                                    (S (S (S
                                                                    (S (S (S
                                                                    (S (S (S
                                                                    (S (S (S
                                                                    (S (S (S
                                                                    (S (S (S
                                                                    (S (S (S
                                                                    (S (S (S
                                                                    (S (S (S
                                                                    (S (S (S
                                                                    (S (S (S
                                                                    (S (S (S
                                                                    (S (S (S
                                                                    (S (S (S
                                                                    (S (S (S
                                                                    (S (S (S
                                                                    (S (S (S
                                                                    (S (S (S
                                                                    (S (S (S
                                                                    (S (S (S
                                                                    (S (S (S
                                                                    (S (S (S
                                                                    (S (S (S
                                                                    (S (S (S
                                                                    (S (S (S
                                                                    (S (S (S
                                                                    (S (S (S
                                                                    (S (S (S
                                                                    (S (S (S
                                                                    (S (S (S
                                                                    (S (S (S
                                                                    (S (S (S
                                                                    (S (S (S
                                                                    (S (S (S
                                                                    (S (S (S
                                                                    (S (S (S
                                                                    (S (S (S
                                                                    (S (S (S
                                                                    (S (S (S
                                                                    (S (S (S
                                                                    (S (S (S
                                                                    (S (S (S
                                                                    (S (S (S
                                                                    (S (S (S
                                                                    (S (S (S
                                                                    (S (S (S
                                                                    (S (S (S
                                                                    (S (S (S
                                                                    (S (S (S
                                                                    (S (S (S
                                                                    (S (S (S
                                                                    (S (S (S
                                                                    (S (S (S
                                                                    (S (S (S
                                                                    (S (S (S
                                                                    (S (S (S
                                                                    (S (S (S
                                                                    (S (S (S
                                                                    (S (S (S
                                                                    (S (S (S
                                                                    (S (S (S
                                                                    (S (S (S
                                                                    (S (S (S
                                                                    (S (S (S
                                                                    (S (S (S
                                                                    (S (S (S
                                                                    (S (S (S
                                                                    (S (S (S
                                                                    (S (S (S
                                                                    (S (S (S
                                                                    (S (S (S
                                                                    (S (S (S
                                                                    (S (S (S
                                                                    (S (S (S
                                                                    (S (S (S
                                                                    (S (S (S
                                                                    (S (S (S
                                                                    (S (S (S
                                                                    (S (S (S
                                                                    (S (S (S
                                                                    (S (S (S
                                                                    (S (S (S
                                                                    (S (S (S
                                                                    (S (S (S
                                                                    (S (S (S
                                                                    (S (S (S
                                                                    (S (S (S
                                                                    (S (S (S
                                                                    (S (S (S
                                                                    (S (S (S
                                                                    (S (S (S
                                                                    (S (S (S
                                                                    (S (S (S
                                                                    (S (S (S
                                                                    (S (S (S
                                                                    (S (S (S
                                                                    (S (S (S
                                                                    (S (S (S
                                                                    (S (S (S
                                                                    (S (S (S
                                                                    (S (S (S
                                                                    (S (S (S
                                                                    (S (S (S
                                                                    (S (S (S
                                                                    (S (S (S
                                                                    (S (S (S
                                                                    (S (S (S
                                                                    (S (S (S
                                                                    (S (S (S
                                                                    (S (S (S
                                                                    (S (S (S
                                                                    (S (S (S
                                                                    (S (S (S
                                                                    (S (S (S
                                                                    (S (S (S
                                                                    (S (S (S
                                                                    (S (S (S
                                                                    (S (S (S
                                                                    (S (S (S
                                                                    (S (S (S
                                                                    (S (S (S
                                                                    (S (S (S
                                                                    (S (S (S
                                                                    (S (S (S
                                                                    (S (S (S
                                                                    (S (S (S
                                                                    (S (S (S
                                                                    (S (S (S
                                                                    (S (S (S
                                                                    (S (S (S
                                                                    (S (S (S
                                                                    (S (S (S
                                                                    (S (S (S
                                                                    (S (S (S
                                                                    (S (S (S
                                                                    (S (S (S
                                                                    (S (S (S
                                                                    (S (S (S
                                                                    (S (S (S
                                                                    (S (S (S
                                                                    (S (S (S
                                                                    (S (S (S
                                                                    (S (S (S
                                                                    (S (S (S
                                                                    (S (S (S
                                                                    (S (S (S
                                                                    (S (S (S
                                                                    (S (S (S
                                                                    (S (S (S
                                                                    (S (S (S
                                                                    (S (S (S
                                                                    (S (S (S
                                                                    (S (S (S
                                                                    O))))))))))))))))))))))))))))))))))))))))))))))))))))))))))))))))))))))))))))))))))))))))))))))))))))))))))))))))))))))))))))))))))))))))))))))))))))))))))))))))))))))))))))))))))))))))))))))))))))))))))))))))))))))))))))))))))))))))))))))))))))))))))))))))))))))))))))))))))))))))))))))))))))))))))))))))))))))))))))))))))))))))))))))))))))))))))))))))))))))))))))))))))))))))))))))))))))))))))))))))))))))))))))))))))))))))))))))))))))))))))))))))))))))))))))))))))))))))))))))))))))))))))))))))))))))))))))))))))))))))))))))))))))))))))))))))))))))))))))))))))))))))))))))))))))))))))))))))))))))))))))))))))))))))))))))))))))))))))))))))))))))))))))))))))))))))))))))))))))))))))))))))))))))))))))))))))))))))))))))))))))))))))))))))))))))))))))))))))))))))))))))))))))))))))))))))))))))))))))))))))))))))))))))))))))))))))))))))))))))))))))))))))))))))))))))))))))))))))))))))))))))))))))))))))))))))))))))))))))))))))))))))))))))))))))))))))))))))))))))))))))))))))))))))))))))))))))))))))))))))))))))))))))))))))))))))
                                                                    (sub c1
                                                                    c0))
                                                             then None
                                                             else let (
                                                                    r3, c3) =
                                                                    skip_sp
                                                                    r2
                                                                    (add c2
                                                                    (S (S O)))
                                                                  in
                                                                  (match 
                                                                   flow_node
                                                                    f r3 c3 with
                                                                   | Some p14 ->
                                                                    let (
                                                                    p15, c4) =
                                                                    p14
                                                                    in
                                                                    let (
                                                                    v, r4) =
                                                                    p15
                                                                    in
                                                                    let (
                                                                    r5, c5) =
                                                                    skip_sp
                                                                    r4 c4
                                                                    in
                                                                    (
                                                                    match r5 with
                                                                    | [] ->
                                                                    None
                                                                    | n3 :: r6 ->
                                                                    (match n3 with
                                                                    | N0 ->
                                                                    None
                                                                    | Npos p16 ->
                                                                    (match p16 with
                                                                    | XI p17 ->
                                                                    (match p17 with
                                                                    | XO p18 ->
                                                                    (match p18 with
                                                                    | XI p19 ->
                                                                    (match p19 with
                                                                    | XI p20 ->
                                                                    (match p20 with
                                                                    | XI p21 ->
                                                                    (match p21 with
                                                                    | XI p22 ->
                                                                    (match p22 with
                                                                    | XH ->
                                                                    Some
                                                                    (((build_map
                                                                    (rev
                                                                    (((unnums
                                                                    k),
                                                                    v) :: acc))),
                                                                    r6), (S
                                                                    c5))
                                                                    | _ ->
                                                                    None)
                                                                    | _ ->
                                                                    None)
                                                                    | _ ->
                                                                    None)
                                                                    | _ ->
                                                                    None)
                                                                    | _ ->
                                                                    None)
                                                                    | _ ->
                                                                    None)
                                                                    | XO p17 ->
                                                                    (match p17 with
                                                                    | XO p18 ->
                                                                    (match p18 with
                                                                    | XI p19 ->
                                                                    (match p19 with
                                                                    | XI p20 ->
                                                                    (match p20 with
                                                                    | XO p21 ->
                                                                    (match p21 with
                                                                    | XH ->
                                                                    let (
                                                                    r7, c7) =
                                                                    skip_sp
                                                                    r6 (S c5)
                                                                    in
                                                                    flow_map_items
                                                                    f r7 c7
                                                                    (((unnums
                                                                    k),
                                                                    v) :: acc)
                                                                    | _ ->
                                                                    None)
                                                                    | _ ->
                                                                    None)
                                                                    | _ ->
                                                                    None)
                                                                    | _ ->
                                                                    None)
                                                                    | _ ->
                                                                    None)
                                                                    | XH ->
                                                                    None)))
                                                                   | None ->
                                                                    None)
                                                           | _ -> None)
                                                        | _ -> None)
                                                     | _ -> None)
                                                  | _ -> None)
                                               | _ -> None)
                                            | _ -> None)))
                                   | _ -> None)
                                | _ -> None)
                             | _ -> None)
                          | _ -> None)
                       | _ -> None)
                    | _ -> None)))
           | None -> None)
        | Npos p ->
          (match p with
           | XI p0 ->
             (match p0 with
              | XI p1 ->
                (match p1 with
                 | XI p2 ->
                   (match p2 with
                    | XI p3 ->
                      (match p3 with
                       | XI p4 ->
                         (match p4 with
                          | XH ->
                            (match l0 with
                             | [] ->
                               let p5 = (l, c) in
                               let explicit = false in
                               let (l1, c0) = p5 in
                               (match flow_scalar l1 c0 with
                                | Some p6 ->
                                  let (p7, c1) = p6 in
                                  let (k, r) = p7 in
                                  let (r1, c2) = skip_sp r c1 in
                                  (match r1 with
                                   | [] -> None
                                   | n1 :: l2 ->
                                     (match n1 with
                                      | N0 -> None
                                      | Npos p8 ->
                                        (match p8 with
                                         | XO p9 ->
                                           (match p9 with
                                            | XI p10 ->
                                              (match p10 with
                                               | XO p11 ->
                                                 (match p11 with
                                                  | XI p12 ->
                                                    (match p12 with
                                                     | XI p13 ->
                                                       (match p13 with
                                                        | XH ->
                                                          (match l2 with
                                                           | [] -> None
                                                           | n2 :: r2 ->
                                                             (match n2 with
                                                              | N0 -> None
                                                              | Npos p14 ->
                                                                (match p14 with
                                                                 | XO p15 ->
                                                                   (match p15 with
                                                                    | XO p16 ->
                                                                    (match p16 with
                                                                    | XO p17 ->
                                                                    (match p17 with
                                                                    | XO p18 ->
                                                                    (match p18 with
                                                                    | XO p19 ->
                                                                    (match p19 with
                                                                    | XH ->
                                                                    if 
                                                                    (&&)
                                                                    (negb
                                                                    explicit)
                                                                    (Nat.ltb
                                                                    (S (S (S
                                                                    (S (S (S
                                                                    (S (S (S
                                                                    (S (S (S
                                                                    (S (S (S
                                                                    (S (S (S
                                                                    (S (S (S
                                                                    (S (S (S
                                                                    (S (S (S
                                                                    (S (S (S
                                                                    (S (S (S
                                                                    (S (S (S
                                                                    (S (S (S
                                                                    (S (S (S
                                                                    (S (S (S
                                                                    (S (S (S
                                                                    (S (S (S
                                                                    (S (S (S
                                                                    (S (S (S
                                                                    (S (S (S
                                                                    (S (S (S
                                                                    (S (S (S
                                                                    (S (S (S
                                                                    (S (S (S
                                                                    (S (S (S
                                                                    (S (S (S
                                                                    (S (S (S
                                                                    (S (S (S
                                                                    (S (S (S
                                                                    (S (S (S
                                                                    (S (S (S
                                                                    (S (S (S
                                                                    (S (S (S
                                                                    (S (S (S
                                                                    (S (S (S
                                                                    (S (S (S
                                                                    (S (S (S
                                                                    (S (S (S
                                                                    (S (S (S
                                                                    (S (S (S
                                                                    (S (S (S
                                                                    (S (S (S
                                                                    (S (S (S
                                                                    (S (S (S
                                                                    (S (S (S
                                                                    (S (S (S
                                                                    (S (S (S
                                                                    (S (S (S
                                                                    (S (S (S
                                                                    (S (S (S
                                                                    (S (S (S
                                                                    (S (S (S
                                                                    (S (S (S
                                                                    (S (S (S
                                                                    (S (S (S
                                                                    (S (S (S
                                                                    (S (S (S
                                                                    (S (S (S
                                                                    (S (S (S
                                                                    (S (S (S
                                                                    (S (S (S
                                                                    (S (S (S
                                                                    (S (S (S
                                                                    (S (S (S
                                                                    (S (S (S
                                                                    (S (S (S
                                                                    (S (S (S
                                                                    (S (S (S
                                                                    (S (S (S
                                                                    (S (S (S
                                                                    (S (S (S
                                                                    (S (S (S
                                                                    (S (S (S
                                                                    (S (S (S
                                                                    (S (S (S
                                                                    (S (S (S
                                                                    (S (S (S
                                                                    (S (S (S
                                                                    (S (S (S
                                                                    (S (S (S
                                                                    (S (S (S
                                                                    (S (S (S
                                                                    (S (S (S
                                                                    (S (S (S
                                                                    (S (S (S
                                                                    (S (S (S
                                                                    (S (S (S
                                                                    (S (S (S
                                                                    (S (S (S
                                                                    (S (S (S
                                                                    (S (S (S
                                                                    (S (S (S
                                                                    (S (S (S
                                                                    (S (S (S
                                                                    (S (S (S
                                                                    (S (S (S
                                                                    (S (S (S
                                                                    (S (S (S
                                                                    (S (S (S
                                                                    (S (S (S
                                                                    (S (S (S
                                                                    (S (S (S
                                                                    (S (S (S
                                                                    (S (S (S
                                                                    (S (S (S
                                                                    (S (S (S
                                                                    (S (S (S
                                                                    (S (S (S
                                                                    (S (S (S
                                                                    (S (S (S
                                                                    (S (S (S
                                                                    (S (S (S
                                                                    (S (S (S
                                                                    (S (S (S
                                                                    (S (S (S
                                                                    (S (S (S
                                                                    (S (S (S
                                                                    (S (S (S
                                                                    (S (S (S
                                                                    (S (S (S
                                                                    (S (S (S
                                                                    (S (S (S
                                                                    (S (S (S
                                                                    (S (S (S
                                                                    (S (S (S
                                                                    (S (S (S
                                                                    (S (S (S
                                                                    (S (S (S
                                                                    (S (S (S
                                                                    (S (S (S
                                                                    (S (S (S
                                                                    (S (S (S
                                                                    (S (S (S
                                                                    (S (S (S
                                                                    (S (S (S
                                                                    (S (S (S
                                                                    (S (S (S
                                                                    (S (S (S
                                                                    (S (S (S
                                                                    (S (S (S
                                                                    (S (S (S
                                                                    (S (S (S
                                                                    (S (S (S
                                                                    (S (S (S
                                                                    (S (S (S
                                                                    (S (S (S
                                                                    (S (S (S
                                                                    (S (S (S
                                                                    (S (S (S
                                                                    (S (S (S
                                                                    (S (S (S
                                                                    (S (S (S
                                                                    (S (S (S
                                                                    (S (S (S
                                                                    (S (S (S
                                                                    (S (S (S
                                                                    (S (S (S
                                                                    (S (S (S
                                                                    (S (S (S
                                                                    (S (S (S
                                                                    (S (S (S
                                                                    (S (S (S
                                                                    (S (S (S
                                                                    (S (S (S
                                                                    (S (S (S
                                                                    (S (S (S
                                                                    (S (S (S
                                                                    (S (S (S
                                                                    (S (S (S
                                                                    (S (S (S
                                                                    (S (S (S
                                                                    (S (S (S
                                                                    (S (S (S
                                                                    (S (S (S
                                                                    (S (S (S
                                                                    (S (S (S
                                                                    (S (S (S
                                                                    (S (S (S
                                                                    (S (S (S
                                                                    (S (S (S
                                                                    (S (S (S
                                                                    (S (S (S
                                                                    (S (S (S
                                                                    (S (S (S
                                                                    (S (S (S
                                                                    (S (S (S
                                                                    (S (S (S
                                                                    (S (S (S
                                                                    (S (S (S
                                                                    (S (S (S
                                                                    (S (S (S
                                                                    (S (S (S
                                                                    (S (S (S
                                                                    (S (S (S
                                                                    (S (S (S
                                                                    (S (S (S
                                                                    (S (S (S
                                                                    (S (S (S
                                                                    (S (S (S
                                                                    (S (S (S
                                                                    (S (S (S
                                                                    (S (S (S
                                                                    (S (S (S
                                                                    (S (S (S
                                                                    (S (S (S
                                                                    (S (S (S
                                                                    (S (S (S
                                                                    (S (S (S
                                                                    (S (S (S
                                                                    (S (S (S
                                                                    (S (S (S
                                                                    (S (S (S
                                                                    (S (S (S
                                                                    (S (S (S
                                                                    (S (S (S
                                                                    (S (S (S
                                                                    (S (S (S
                                                                    (S (S (S
                                                                    (S (S (S
                                                                    (S (S (S
                                                                    (S (S (S
                                                                    (S (S (S
                                                                    (S (S (S
                                                                    (S (S (S
                                                                    (S (S (S
                                                                    (S (S (S
                                                                    (S (S (S
                                                                    (S (S (S
                                                                    (S (S (S
                                                                    (S (S (S
                                                                    (S (S (S
                                                                    (S (S (S
                                                                    (S (S (S
                                                                    (S (S (S
                                                                    (S (S (S
                                                                    (S (S (S
                                                                    (S (S (S
                                                                    (S (S (S
                                                                    (S (S (S
                                                                    (S (S (S
                                                                    (S (S (S
                                                                    (S (S (S
                                                                    (S (S (S
                                                                    (S (S (S
                                                                    (S (S (S
                                                                    (S (S (S
                                                                    (S (S (S
                                                                    (S (S (S
                                                                    (S (S (S
                                                                    (S (S (S
                                                                    (S (S (S
                                                                    (S (S (S
                                                                    (S (S (S
                                                                    (S (S (S
                                                                    (S (S (S
                                                                    (S (S (S
                                                                    (S (S (S
                                                                    (S (S (S
                                                                    (S (S (S
                                                                    (S (S (S
                                                                    (S (S (S
                                                                    (S (S (S
                                                                    (S (S (S
                                                                    (S (S (S
                                                                    (S (S (S
                                                                    (S (S (S
                                                                    (S (S (S
                                                                    (S (S (S
                                                                    (S (S (S
                                                                    (S (S (S
                                                                    (S (S (S
                                                                    (S (S (S
                                                                    (S (S (S
                                                                    (S (S (S
                                                                    (S (S (S
                                                                    (S (S (S
                                                                    (S (S (S
                                                                    (S (S (S
                                                                    (S (S (S
                                                                    (S (S (S
                                                                    (S (S (S
                                                                    (S (S (S
                                                                    (S (S (S
                                                                    (S (S (S
                                                                    (S (S (S
                                                                    (S (S (S
                                                                    (S (S (S
                                                                    (S (S (S
                                                                    (S (S (S
                                                                    (S (S (S
                                                                    (S (S (S
                                                                    (S (S (S
                                                                    (S (S (S
                                                                    (S (S (S
                                                                    (S (S (S
                                                                    (S (S (S
                                                                    (S (S (S
                                                                    (S (S (S
                                                                    (S (S (S
                                                                    (S (S (S
                                                                    (S (S (S
                                                                    (S (S (S
                                                                    (S (S (S
                                                                    (S (S (S
                                                                    (S (S (S
                                                                    (S (S (S
                                                                    (S (S (S
                                                                    (S (S (S
                                                                    (S (S (S
                                                                    (S (S (S
                                                                    (S (S (S
                                                                    (S (S (S
                                                                    (S (S (S
                                                                    (S (S (S
                                                                    (S (S (S
                                                                    (S (S (S
                                                                    (S (S (S
                                                                    (S (S (S
                                                                    (S (S (S
                                                                    (S (S (S
                                                                    (S (S (S
                                                                    (S (S (S
                                                                    (S (S (S
                                                                    (S (S (S
                                                                    (S (S (S
                                                                    (S (S (S
                                                                    (S (S (S
                                                                    (S (S (S
                                                                    (S (S (S
                                                                    (S (S (S
                                                                    (S (S (S
                                                                    (S (S (S
                                                                    (S (S (S
                                                                    (S (S (S
                                                                    (S (S (S
                                                                    (S (S (S
                                                                    (S (S (S
                                                                    (S (S (S
                                                                    (S (S (S
                                                                    (S (S (S
                                                                    (S (S (S
                                                                    (S
                                                                    O))))))))))))))))))))))))))))))))))))))))))))))))))))))))))))))))))))))))))))))))))))))))))))))))))))))))))))))))))))))))))))))))))))))))))))))))))))))))))))))))))))))))))))))))))))))))))))))))))))))))))))))))))))))))))))))))))))))))))))))))))))))))))))))))))))))))))))))))))))))))))))))))))))))))))))))))))))))))))))))))))))))))))))))))))))))))))))))))))))))))))))))))))))))))))))))))))))))))))))))))))))))))))))))))))))))))))))))))))))))))))))))))))))))))))))))))))))))))))))))))))))))))))))))))))))))))))))))))))))))))))))))))))))))))))))))))))))))))))))))))))))))))))))))))))))))))))))))))))))))))))))))))))))))))))))))))))))))))))))))))))))))))))))))))))))))))))))))))))))))))))))))))))))))))))))))))))))))))))))))))))))))))))))))))))))))))))))))))))))))))))))))))))))))))))))))))))))))))))))))))))))))))))))))))))))))))))))))))))))))))))))))))))))))))))))))))))))))))))))))))))))))))))))))))))))))))))))))))))))))))))))))))))))))))))))))))))))))))))))))))))))))))))))))))))))))))))))))))))))))))))))))))))))))))))))))))
                                                                    (sub c1
                                                                    c0))
                                                                    then None
                                                                    else 
                                                                    let (
                                                                    r3, c3) =
                                                                    skip_sp
                                                                    r2
                                                                    (add c2
                                                                    (S (S O)))
                                                                    in
                                                                    (
                                                                    match 
                                                                    flow_node
                                                                    f r3 c3 with
                                                                    | Some p20 ->
                                                                    let (
                                                                    p21, c4) =
                                                                    p20
                                                                    in
                                                                    let (
                                                                    v, r4) =
                                                                    p21
                                                                    in
                                                                    let (
                                                                    r5, c5) =
                                                                    skip_sp
                                                                    r4 c4
                                                                    in
                                                                    (
                                                                    match r5 with
                                                                    | [] ->
                                                                    None
                                                                    | n3 :: r6 ->
                                                                    (match n3 with
                                                                    | N0 ->
                                                                    None
                                                                    | Npos p22 ->
                                                                    (match p22 with
                                                                    | XI p23 ->
                                                                    (match p23 with
                                                                    | XO p24 ->
                                                                    (match p24 with
                                                                    | XI p25 ->
                                                                    (match p25 with
                                                                    | XI p26 ->
                                                                    (match p26 with
                                                                    | XI p27 ->
                                                                    (match p27 with
                                                                    | XI p28 ->
                                                                    (match p28 with
                                                                    | XH ->
                                                                    Some
                                                                    (((build_map
                                                                    (rev
                                                                    (((unnums
                                                                    k),
                                                                    v) :: acc))),
                                                                    r6), (S
                                                                    c5))
                                                                    | _ ->
                                                                    None)
                                                                    | _ ->
                                                                    None)
                                                                    | _ ->
                                                                    None)
                                                                    | _ ->
                                                                    None)
                                                                    | _ ->
                                                                    None)
                                                                    | _ ->
                                                                    None)
                                                                    | XO p23 ->
                                                                    (match p23 with
                                                                    | XO p24 ->
                                                                    (match p24 with
                                                                    | XI p25 ->
                                                                    (match p25 with
                                                                    | XI p26 ->
                                                                    (match p26 with
                                                                    | XO p27 ->
                                                                    (match p27 with
                                                                    | XH ->
                                                                    let (
                                                                    r7, c7) =
                                                                    skip_sp
                                                                    r6 (S c5)
                                                                    in
                                                                    flow_map_items
                                                                    f r7 c7
                                                                    (((unnums
                                                                    k),
                                                                    v) :: acc)
                                                                    | _ ->
                                                                    None)
                                                                    | _ ->
                                                                    None)
                                                                    | _ ->
                                                                    None)
                                                                    | _ ->
                                                                    None)
                                                                    | _ ->
                                                                    None)
                                                                    | XH ->
                                                                    None)))
                                                                    | None ->
                                                                    None)
                                                                    | _ ->
                                                                    None)
                                                                    | _ ->
                                                                    None)
                                                                    | _ ->
                                                                    None)
                                                                    | _ ->
                                                                    None)
                                                                    | _ ->
                                                                    None)
                                                                 | _ -> None)))
                                                        | _ -> None)
                                                     | _ -> None)
                                                  | _ -> None)
                                               | _ -> None)
                                            | _ -> None)
                                         | _ -> None)))
                                | None -> None)
                             | n1 :: r ->
                               (match n1 with
                                | N0 ->
                                  let p5 = (l, c) in
                                  let explicit = false in
                                  let (l1, c0) = p5 in
                                  (match flow_scalar l1 c0 with
                                   | Some p6 ->
                                     let (p7, c1) = p6 in
                                     let (k, r0) = p7 in
                                     let (r1, c2) = skip_sp r0 c1 in
                                     (match r1 with
                                      | [] -> None
                                      | n2 :: l2 ->
                                        (match n2 with
                                         | N0 -> None
                                         | Npos p8 ->
                                           (match p8 with
                                            | XO p9 ->
                                              (match p9 with
                                               | XI p10 ->
                                                 (match p10 with
                                                  | XO p11 ->
                                                    (match p11 with
                                                     | XI p12 ->
                                                       (match p12 with
                                                        | XI p13 ->
                                                          (match p13 with
                                                           | XH ->
                                                             (match l2 with
                                                              | [] -> None
                                                              | n3 :: r2 ->
                                                                (match n3 with
                                                                 | N0 -> None
                                                                 | Npos p14 ->
                                                                   (match p14 with
                                                                    | XO p15 ->
                                                                    (match p15 with
                                                                    | XO p16 ->
                                                                    (match p16 with
                                                                    | XO p17 ->
                                                                    (match p17 with
                                                                    | XO p18 ->
                                                                    (match p18 with
                                                                    | XO p19 ->
                                                                    (match p19 with
                                                                    | XH ->
                                                                    if 
                                                                    (&&)
                                                                    (negb
                                                                    explicit)
                                                                    (Nat.ltb
                                                                    (S (S (S
                                                                    (S (S (S
                                                                    (S (S (S
                                                                    (S (S (S
                                                                    (S (S (S
                                                                    (S (S (S
                                                                    (S (S (S
                                                                    (S (S (S
                                                                    (S (S (S
                                                                    (S (S (S
                                                                    (S (S (S
                                                                    (S (S (S
                                                                    (S (S (S
                                                                    (S (S (S
                                                                    (S (S (S
                                                                    (S (S (S
                                                                    (S (S (S
                                                                    (S (S (S
                                                                    (S (S (S
                                                                    (S (S (S
                                                                    (S (S (S
                                                                    (S (S (S
                                                                    (S (S (S
                                                                    (S (S (S
                                                                    (S (S (S
                                                                    (S (S (S
                                                                    (S (S (S
                                                                    (S (S (S
                                                                    (S (S (S
                                                                    (S (S (S
                                                                    (S (S (S
                                                                    (S (S (S
                                                                    (S (S (S
                                                                    (S (S (S
                                                                    (S (S (S
                                                                    (S (S (S
                                                                    (S (S (S
                                                                    (S (S (S
                                                                    (S (S (S
                                                                    (S (S (S
                                                                    (S (S (S
                                                                    (S (S (S
                                                                    (S (S (S
                                                                    (S (S (S
                                                                    (S (S (S
                                                                    (S (S (S
                                                                    (S (S (S
                                                                    (S (S (S
                                                                    (S (S (S
                                                                    (S (S (S
                                                                    (S (S (S
                                                                    (S (S (S
                                                                    (S (S (S
                                                                    (S (S (S
                                                                    (S (S (S
                                                                    (S (S (S
                                                                    (S (S (S
                                                                    (S (S (S
                                                                    (S (S (S
                                                                    (S (S (S
                                                                    (S (S (S
                                                                    (S (S (S
                                                                    (S (S (S
                                                                    (S (S (S
                                                                    (S (S (S
                                                                    (S (S (S
                                                                    (S (S (S
                                                                    (S (S (S
                                                                    (S (S (S
                                                                    (S (S (S
                                                                    (S (S (S
                                                                    (S (S (S
                                                                    (S (S (S
                                                                    (S (S (S
                                                                    (S (S (S
                                                                    (S (S (S
                                                                    (S (S (S
                                                                    (S (S (S
                                                                    (S (S (S
                                                                    (S (S (S
                                                                    (S (S (S
                                                                    (S (S (S
                                                                    (S (S (S
                                                                    (S (S (S
                                                                    (S (S (S
                                                                    (S (S (S
                                                                    (S (S (S
                                                                    (S (S (S
                                                                    (S (S (S
                                                                    (S (S (S
                                                                    (S (S (S
                                                                    (S (S (S
                                                                    (S (S (S
                                                                    (S (S (S
                                                                    (S (S (S
                                                                    (S (S (S
                                                                    (S (S (S
                                                                    (S (S (S
                                                                    (S (S (S
                                                                    (S (S (S
                                                                    (S (S (S
                                                                    (S (S (S
                                                                    (S (S (S
                                                                    (S (S (S
                                                                    (S (S (S
                                                                    (S (S (S
                                                                    (S (S (S
                                                                    (S (S (S
                                                                    (S (S (S
                                                                    (S (S (S
                                                                    (S (S (S
                                                                    (S (S (S
                                                                    (S (S (S
                                                                    (S (S (S
                                                                    (S (S (S
                                                                    (S (S (S
                                                                    (S (S (S
                                                                    (S (S (S
                                                                    (S (S (S
                                                                    (S (S (S
                                                                    (S (S (S
                                                                    (S (S (S
                                                                    (S (S (S
                                                                    (S (S (S
                                                                    (S (S (S
                                                                    (S (S (S
                                                                    (S (S (S
                                                                    (S (S (S
                                                                    (S (S (S
                                                                    (S (S (S
                                                                    (S (S (S
                                                                    (S (S (S
                                                                    (S (S (S
                                                                    (S (S (S
                                                                    (S (S (S
                                                                    (S (S (S
                                                                    (S (S (S
                                                                    (S (S (S
                                                                    (S (S (S
                                                                    (S (S (S
                                                                    (S (S (S
                                                                    (S (S (S
                                                                    (S (S (S
                                                                    (S (S (S
                                                                    (S (S (S
                                                                    (S (S (S
                                                                    (S (S (S
                                                                    (S (S (S
                                                                    (S (S (S
                                                                    (S (S (S
                                                                    (S (S (S
                                                                    (S (S (S
                                                                    (S (S (S
                                                                    (S (S (S
                                                                    (S (S (S
                                                                    (S (S (S
                                                                    (S (S (S
                                                                    (S (S (S
                                                                    (S (S (S
                                                                    (S (S (S
                                                                    (S (S (S
                                                                    (S (S (S
                                                                    (S (S (S
                                                                    (S (S (S
                                                                    (S (S (S
                                                                    (S (S (S
                                                                    (S (S (S
                                                                    (S (S (S
                                                                    (S (S (S
                                                                    (S (S (S
                                                                    (S (S (S
                                                                    (S (S (S
                                                                    (S (S (S
                                                                    (S (S (S
                                                                    (S (S (S
                                                                    (S (S (S
                                                                    (S (S (S
                                                                    (S (S (S
                                                                    (S (S (S
                                                                    (S (S (S
                                                                    (S (S (S
                                                                    (S (S (S
                                                                    (S (S (S
                                                                    (S (S (S
                                                                    (S (S (S
                                                                    (S (S (S
                                                                    (S (S (S
                                                                    (S (S (S
                                                                    (S (S (S
                                                                    (S (S (S
                                                                    (S (S (S
                                                                    (S (S (S
                                                                    (S (S (S
                                                                    (S (S (S
                                                                    (S (S (S
                                                                    (S (S (S
                                                                    (S (S (S
                                                                    (S (S (S
                                                                    (S (S (S
                                                                    (S (S (S
                                                                    (S (S (S
                                                                    (S (S (S
                                                                    (S (S (S
                                                                    (S (S (S
                                                                    (S (S (S
                                                                    (S (S (S
                                                                    (S (S (S
                                                                    (S (S (S
                                                                    (S (S (S
                                                                    (S (S (S
                                                                    (S (S (S
                                                                    (S (S (S
                                                                    (S (S (S
                                                                    (S (S (S
                                                                    (S (S (S
                                                                    (S (S (S
                                                                    (S (S (S
                                                                    (S (S (S
                                                                    (S (S (S
                                                                    (S (S (S
                                                                    (S (S (S
                                                                    (S (S (S
                                                                    (S (S (S
                                                                    (S (S (S
                                                                    (S (S (S
                                                                    (S (S (S
                                                                    (S (S (S
                                                                    (S (S (S
                                                                    (S (S (S
                                                                    (S (S (S
                                                                    (S (S (S
                                                                    (S (S (S
                                                                    (S (S (S
                                                                    (S (S (S
                                                                    (S (S (S
                                                                    (S (S (S
                                                                    (S (S (S
                                                                    (S (S (S
                                                                    (S (S (S
                                                                    (S (S (S
                                                                    (S (S (S
                                                                    (S (S (S
                                                                    (S (S (S
                                                                    (S (S (S
                                                                    (S (S (S
                                                                    (S (S (S
                                                                    (S (S (S
                                                                    (S (S (S
                                                                    (S (S (S
                                                                    (S (S (S
                                                                    (S (S (S
                                                                    (S (S (S
                                                                    (S (S (S
                                                                    (S (S (S
                                                                    (S (S (S
                                                                    (S (S (S
                                                                    (S (S (S
                                                                    (S (S (S
                                                                    (S (S (S
                                                                    (S (S (S
                                                                    (S (S (S
                                                                    (S (S (S
                                                                    (S (S (S
                                                                    (S (S (S
                                                                    (S (S (S
                                                                    (S (S (S
                                                                    (S (S (S
                                                                    (S (S (S
                                                                    (S (S (S
                                                                    (S (S (S
                                                                    (S (S (S
                                                                    (S (S (S
                                                                    (S (S (S
                                                                    (S (S (S
                                                                    (S (S (S
                                                                    (S (S (S
                                                                    (S (S (S
                                                                    (S (S (S
                                                                    (S (S (S
                                                                    (S (S (S
                                                                    (S (S (S
                                                                    (S (S (S
                                                                    (S (S (S
                                                                    (S (S (S
                                                                    (S (S (S
                                                                    (S (S (S
                                                                    (S (S (S
                                                                    (S (S (S
                                                                    (S (S (S
                                                                    (S (S (S
                                                                    (S (S (S
                                                                    (S (S (S
                                                                    (S (S (S
                                                                    (S (S (S
                                                                    (S (S (S
                                                                    (S (S (S
                                                                    (S (S (S
                                                                    (S (S (S
                                                                    (S (S (S
                                                                    (S (S (S
                                                                    (S (S (S
                                                                    (S (S (S
                                                                    (S (S (S
                                                                    (S (S (S
                                                                    (S (S (S
                                                                    (S (S (S
                                                                    (S (S (S
                                                                    (S (S (S
                                                                    (S (S (S
                                                                    (S (S (S
                                                                    (S (S (S
                                                                    (S (S (S
                                                                    (S (S (S
                                                                    (S (S (S
                                                                    (S (S (S
                                                                    (S (S (S
                                                                    (S (S (S
                                                                    (S (S (S
                                                                    (S (S (S
                                                                    (S (S (S
                                                                    (S (S (S
                                                                    (S (S (S
                                                                    (S (S (S
                                                                    (S (S (S
                                                                    (S (S (S
                                                                    (S (S (S
                                                                    (S (S (S
                                                                    (S (S (S
                                                                    (S (S (S
                                                                    (S (S (S
                                                                    (S (S (S
                                                                    (S (S (S
                                                                    (S (S (S
                                                                    (S (S (S
                                                                    (S (S (S
                                                                    (S (S (S
                                                                    (S (S (S
                                                                    (S (S (S
                                                                    (S (S (S
                                                                    (S (S (S
                                                                    (S (S (S
                                                                    (S
                                                                    O))))))))))))))))))))))))))))))))))))))))))))))))))))))))))))))))))))))))))))))))))))))))))))))))))))))))))))))))))))))))))))))))))))))))))))))))))))))))))))))))))))))))))))))))))))))))))))))))))))))))))))))))))))))))))))))))))))))))))))))))))))))))))))))))))))))))))))))))))))))))))))))))))))))))))))))))))))))))))))))))))))))))))))))))))))))))))))))))))))))))))))))))))))))))))))))))))))))))))))))))))))))))))))))))))))))))))))))))))))))))))))))))))))))))))))))))))))))))))))))))))))))))))))))))))))))))))))))))))))))))))))))))))))))))))))))))))))))))))))))))))))))))))))))))))))))))))))))))))))))))))))))))))))))))))))))))))))))))))))))))))))))))))))))))))))))))))))))))))))))))))))))))))))))))))))))))))))))))))))))))))))))))))))))))))))))))))))))))))))))))))))))))))))))))))))))))))))))))))))))))))))))))))))))))))))))))))))))))))))))))))))))))))))))))))))))))))))))))))))))))))))))))))))))))))))))))))))))))))))))))))))))))))))))))))))))))))))))))))))))))))))))))))))))))))))))))))))))))))))))))))))))))))))))))))))))))
                                                                    (sub c1
                                                                    c0))
                                                                    then None
                                                                    else 
                                                                    let (
                                                                    r3, c3) =
                                                                    skip_sp
                                                                    r2
                                                                    (add c2
                                                                    (S (S O)))
                                                                    in
                                                                    (
                                                                    match 
                                                                    flow_node
                                                                    f r3 c3 with
                                                                    | Some p20 ->
                                                                    let (
                                                                    p21, c4) =
                                                                    p20
                                                                    in
                                                                    let (
                                                                    v, r4) =
                                                                    p21
                                                                    in
                                                                    let (
                                                                    r5, c5) =
                                                                    skip_sp
                                                                    r4 c4
                                                                    in
                                                                    (
                                                                    match r5 with
                                                                    | [] ->
                                                                    None
                                                                    | n4 :: r6 ->
                                                                    (match n4 with
                                                                    | N0 ->
                                                                    None
                                                                    | Npos p22 ->
                                                                    (match p22 with
                                                                    | XI p23 ->
                                                                    (match p23 with
                                                                    | XO p24 ->
                                                                    (match p24 with
                                                                    | XI p25 ->
                                                                    (match p25 with
                                                                    | XI p26 ->
                                                                    (match p26 with
                                                                    | XI p27 ->
                                                                    (match p27 with
                                                                    | XI p28 ->
                                                                    (match p28 with
                                                                    | XH ->
                                                                    Some
                                                                    (((build_map
                                                                    (rev
                                                                    (((unnums
                                                                    k),
                                                                    v) :: acc))),
                                                                    r6), (S
                                                                    c5))
                                                                    | _ ->
                                                                    None)
                                                                    | _ ->
                                                                    None)
                                                                    | _ ->
                                                                    None)
                                                                    | _ ->
                                                                    None)
                                                                    | _ ->
                                                                    None)
                                                                    | _ ->
                                                                    None)
                                                                    | XO p23 ->
                                                                    (match p23 with
                                                                    | XO p24 ->
                                                                    (match p24 with
                                                                    | XI p25 ->
                                                                    (match p25 with
                                                                    | XI p26 ->
                                                                    (match p26 with
                                                                    | XO p27 ->
                                                                    (match p27 with
                                                                    | XH ->
                                                                    let (
                                                                    r7, c7) =
                                                                    skip_sp
                                                                    r6 (S c5)
                                                                    in
                                                                    flow_map_items
                                                                    f r7 c7
                                                                    (((unnums
                                                                    k),
                                                                    v) :: acc)
                                                                    | _ ->
                                                                    None)
                                                                    | _ ->
                                                                    None)
                                                                    | _ ->
                                                                    None)
                                                                    | _ ->
                                                                    None)
                                                                    | _ ->
                                                                    None)
                                                                    | XH ->
                                                                    None)))
                                                                    | None ->
                                                                    None)
                                                                    | _ ->
                                                                    None)
                                                                    | _ ->
                                                                    None)
                                                                    | _ ->
                                                                    None)
                                                                    | _ ->
                                                                    None)
                                                                    | _ ->
                                                                    None)
                                                                    | _ ->
                                                                    None)))
                                                           | _ -> None)
                                                        | _ -> None)
                                                     | _ -> None)
                                                  | _ -> None)
                                               | _ -> None)
                                            | _ -> None)))
                                   | None -> None)
                                | Npos p5 ->
                                  (match p5 with
                                   | XO p6 ->
                                     (match p6 with
                                      | XO p7 ->
                                        (match p7 with
                                         | XO p8 ->
                                           (match p8 with
                                            | XO p9 ->
                                              (match p9 with
                                               | XO p10 ->
                                                 (match p10 with
                                                  | XH ->
                                                    let p11 =
                                                      skip_sp r
                                                        (add c (S (S O)))
                                                    in
                                                    let explicit = true in
                                                    let (l1, c0) = p11 in
                                                    (match flow_scalar l1 c0 with
                                                     | Some p12 ->
                                                       let (p13, c1) = p12 in
                                                       let (k, r0) = p13 in
                                                       let (r1, c2) =
                                                         skip_sp r0 c1
                                                       in
                                                       (match r1 with
                                                        | [] -> None
                                                        | n2 :: l2 ->
                                                          (match n2 with
                                                           | N0 -> None
                                                           | Npos p14 ->
                                                             (match p14 with
                                                              | XO p15 ->
                                                                (match p15 with
                                                                 | XI p16 ->
                                                                   (match p16 with
                                                                    | XO p17 ->
                                                                    (match p17 with
                                                                    | XI p18 ->
                                                                    (match p18 with
                                                                    | XI p19 ->
                                                                    (match p19 with
                                                                    | XH ->
                                                                    (match l2 with
                                                                    | [] ->
                                                                    None
                                                                    | n3 :: r2 ->
                                                                    (match n3 with
                                                                    | N0 ->
                                                                    None
                                                                    | Npos p20 ->
                                                                    (match p20 with
                                                                    | XO p21 ->
                                                                    (match p21 with
                                                                    | XO p22 ->
                                                                    (match p22 with
                                                                    | XO p23 ->
                                                                    (match p23 with
                                                                    | XO p24 ->
                                                                    (match p24 with
                                                                    | XO p25 ->
                                                                    (match p25 with
                                                                    | XH ->
                                                                    if 
                                                                    (&&)
                                                                    (negb
                                                                    explicit)
                                                                    (Nat.ltb
                                                                    (S (S (S
                                                                    (S (S (S
                                                                    (S (S (S
                                                                    (S (S (S
                                                                    (S (S (S
                                                                    (S (S (S
                                                                    (S (S (S
                                                                    (S (S (S
                                                                    (S (S (S
                                                                    (S (S (S
                                                                    (S (S (S
                                                                    (S (S (S
                                                                    (S (S (S
                                                                    (S (S (S
                                                                    (S (S (S
                                                                    (S (S (S
                                                                    (S (S (S
                                                                    (S (S (S
                                                                    (S (S (S
                                                                    (S (S (S
                                                                    (S (S (S
                                                                    (S (S (S
                                                                    (S (S (S
                                                                    (S (S (S
                                                                    (S (S (S
                                                                    (S (S (S
                                                                    (S (S (S
                                                                    (S (S (S
                                                                    (S (S (S
                                                                    (S (S (S
                                                                    (S (S (S
                                                                    (S (S (S
                                                                    (S (S (S
                                                                    (S (S (S
                                                                    (S (S (S
                                                                    (S (S (S
                                                                    (S (S (S
                                                                    (S (S (S
                                                                    (S (S (S
                                                                    (S (S (S
                                                                    (S (S (S
                                                                    (S (S (S
                                                                    (S (S (S
                                                                    (S (S (S
                                                                    (S (S (S
                                                                    (S (S (S
                                                                    (S (S (S
                                                                    (S (S (S
                                                                    (S (S (S
                                                                    (S (S (S
                                                                    (S (S (S
                                                                    (S (S (S
                                                                    (S (S (S
                                                                    (S (S (S
                                                                    (S (S (S
                                                                    (S (S (S
                                                                    (S (S (S
                                                                    (S (S (S
                                                                    (S (S (S
                                                                    (S (S (S
                                                                    (S (S (S
                                                                    (S (S (S
                                                                    (S (S (S
                                                                    (S (S (S
                                                                    (S (S (S
                                                                    (S (S (S
                                                                    (S (S (S
                                                                    (S (S (S
                                                                    (S (S (S
                                                                    (S (S (S
                                                                    (S (S (S
                                                                    (S (S (S
                                                                    (S (S (S
                                                                    (S (S (S
                                                                    (S (S (S
                                                                    (S (S (S
                                                                    (S (S (S
                                                                    (S (S (S
                                                                    (S (S (S
                                                                    (S (S (S
                                                                    (S (S (S
                                                                    (S (S (S
                                                                    (S (S (S
                                                                    (S (S (S
                                                                    (S (S (S
                                                                    (S (S (S
                                                                    (S (S (S
                                                                    (S (S (S
                                                                    (S (S (S
                                                                    (S (S (S
                                                                    (S (S (S
                                                                    (S (S (S
                                                                    (S (S (S
                                                                    (S (S (S
                                                                    (S (S (S
                                                                    (S (S (S
                                                                    (S (S (S
                                                                    (S (S (S
                                                                    (S (S (S
                                                                    (S (S (S
                                                                    (S (S (S
                                                                    (S (S (S
                                                                    (S (S (S
                                                                    (S (S (S
                                                                    (S (S (S
                                                                    (S (S (S
                                                                    (S (S (S
                                                                    (S (S (S
                                                                    (S (S (S
                                                                    (S (S (S
                                                                    (S (S (S
                                                                    (S (S (S
                                                                    (S (S (S
                                                                    (S (S (S
                                                                    (S (S (S
                                                                    (S (S (S
                                                                    (S (S (S
                                                                    (S (S (S
                                                                    (S (S (S
                                                                    (S (S (S
                                                                    (S (S (S
                                                                    (S (S (S
                                                                    (S (S (S
                                                                    (S (S (S
                                                                    (S (S (S
                                                                    (S (S (S
                                                                    (S (S (S
                                                                    (S (S (S
                                                                    (S (S (S
                                                                    (S (S (S
                                                                    (S (S (S
                                                                    (S (S (S
                                                                    (S (S (S
                                                                    (S (S (S
                                                                    (S (S (S
                                                                    (S (S (S
                                                                    (S (S (S
                                                                    (S (S (S
                                                                    (S (S (S
                                                                    (S (S (S
                                                                    (S (S (S
                                                                    (S (S (S
                                                                    (S (S (S
                                                                    (S (S (S
                                                                    (S (S (S
                                                                    (S (S (S
                                                                    (S (S (S
                                                                    (S (S (S
                                                                    (S (S (S
                                                                    (S (S (S
                                                                    (S (S (S
                                                                    (S (S (S
                                                                    (S (S (S
                                                                    (S (S (S
                                                                    (S (S (S
                                                                    (S (S (S
                                                                    (S (S (S
                                                                    (S (S (S
                                                                    (S (S (S
                                                                    (S (S (S
                                                                    (S (S (S
                                                                    (S (S (S
                                                                    (S (S (S
                                                                    (S (S (S
                                                                    (S (S (S
                                                                    (S (S (S
                                                                    (S (S (S
                                                                    (S (S (S
                                                                    (S (S (S
                                                                    (S (S (S
                                                                    (S (S (S
                                                                    (S (S (S
                                                                    (S (S (S
                                                                    (S (S (S
                                                                    (S (S (S
                                                                    (S (S (S
                                                                    (S (S (S
                                                                    (S (S (S
                                                                    (S (S (S
                                                                    (S (S (S
                                                                    (S (S (S
                                                                    (S (S (S
                                                                    (S (S (S
                                                                    (S (S (S
                                                                    (S (S (S
                                                                    (S (S (S
                                                                    (S (S (S
                                                                    (S (S (S
                                                                    (S (S (S
                                                                    (S (S (S
                                                                    (S (S (S
                                                                    (S (S (S
                                                                    (S (S (S
                                                                    (S (S (S
                                                                    (S (S (S
                                                                    (S (S (S
                                                                    (S (S (S
                                                                    (S (S (S
                                                                    (S (S (S
                                                                    (S (S (S
                                                                    (S (S (S
                                                                    (S (S (S
                                                                    (S (S (S
                                                                    (S (S (S
                                                                    (S (S (S
                                                                    (S (S (S
                                                                    (S (S (S
                                                                    (S (S (S
                                                                    (S (S (S
                                                                    (S (S (S
                                                                    (S (S (S
                                                                    (S (S (S
                                                                    (S (S (S
                                                                    (S (S (S
                                                                    (S (S (S
                                                                    (S (S (S
                                                                    (S (S (S
                                                                    (S (S (S
                                                                    (S (S (S
                                                                    (S (S (S
                                                                    (S (S (S
                                                                    (S (S (S
                                                                    (S (S (S
                                                                    (S (S (S
                                                                    (S (S (S
                                                                    (S (S (S
                                                                    (S (S (S
                                                                    (S (S (S
                                                                    (S (S (S
                                                                    (S (S (S
                                                                    (S (S (S
                                                                    (S (S (S
                                                                    (S (S (S
                                                                    (S (S (S
                                                                    (S (S (S
                                                                    (S (S (S
                                                                    (S (S (S
                                                                    (S (S (S
                                                                    (S (S (S
                                                                    (S (S (S
                                                                    (S (S (S
                                                                    (S (S (S
                                                                    (S (S (S
                                                                    (S (S (S
                                                                    (S (S (S
                                                                    (S (S (S
                                                                    (S (S (S
                                                                    (S (S (S
                                                                    (S (S (S
                                                                    (S (S (S
                                                                    (S (S (S
                                                                    (S (S (S
                                                                    (S (S (S
                                                                    (S (S (S
                                                                    (S (S (S
                                                                    (S (S (S
                                                                    (S (S (S
                                                                    (S (S (S
                                                                    (S (S (S
                                                                    (S (S (S
                                                                    (S (S (S
                                                                    (S (S (S
                                                                    (S (S (S
                                                                    (S (S (S
                                                                    (S (S (S
                                                                    (S (S (S
                                                                    (S (S (S
                                                                    (S (S (S
                                                                    (S (S (S
                                                                    (S (S (S
                                                                    (S (S (S
                                                                    (S (S (S
                                                                    (S (S (S
                                                                    (S (S (S
                                                                    (S (S (S
                                                                    (S (S (S
                                                                    (S (S (S
                                                                    (S (S (S
                                                                    (S (S (S
                                                                    (S (S (S
                                                                    (S (S (S
                                                                    (S (S (S
                                                                    (S (S (S
                                                                    (S (S (S
                                                                    (S (S (S
                                                                    (S (S (S
                                                                    (S (S (S
                                                                    (S (S (S
                                                                    (S (S (S
                                                                    (S (S (S
                                                                    (S (S (S
                                                                    (S (S (S
                                                                    (S (S (S
                                                                    (S (S (S
                                                                    (S (S (S
                                                                    (S (S (S
                                                                    (S (S (S
                                                                    (S (S (S
                                                                    (S (S (S
                                                                    (S (S (S
                                                                    (S (S (S
                                                                    (S (S (S
                                                                    (S (S (S
                                                                    (S (S (S
                                                                    (S (S (S
                                                                    (S (S (S
                                                                    (S (S (S
                                                                    (S (S (S
                                                                    (S (S (S
                                                                    (S (S (S
                                                                    (S (S (S
                                                                    (S (S (S
                                                                    (S (S (S
                                                                    (S (S (S
                                                                    (S (S (S
                                                                    (S (S (S
                                                                    (S (S (S
                                                                    (S (S (S
                                                                    (S (S (S
                                                                    (S (S (S
                                                                    (S (S (S
                                                                    (S (S (S
                                                                    (S (S (S
                                                                    (S (S (S
                                                                    (S (S (S
                                                                    (S (S (S
                                                                    (S (S (S
                                                                    (S (S (S
                                                                    (S (S (S
                                                                    (S (S (S
                                                                    (S (S (S
                                                                    (S (S (S
                                                                    (S (S (S
                                                                    (S (S (S
                                                                    (S (S (S
                                                                    (S (S (S
                                                                    (S (S (S
                                                                    (S (S (S
                                                                    (S (S (S
                                                                    (S (S (S
                                                                    (S (S (S
                                                                    (S
                                                                    O))))))))))))))))))))))))))))))))))))))))))))))))))))))))))))))))))))))))))))))))))))))))))))))))))))))))))))))))))))))))))))))))))))))))))))))))))))))))))))))))))))))))))))))))))))))))))))))))))))))))))))))))))))))))))))))))))))))))))))))))))))))))))))))))))))))))))))))))))))))))))))))))))))))))))))))))))))))))))))))))))))))))))))))))))))))))))))))))))))))))))))))))))))))))))))))))))))))))))))))))))))))))))))))))))))))))))))))))))))))))))))))))))))))))))))))))))))))))))))))))))))))))))))))))))))))))))))))))))))))))))))))))))))))))))))))))))))))))))))))))))))))))))))))))))))))))))))))))))))))))))))))))))))))))))))))))))))))))))))))))))))))))))))))))))))))))))))))))))))))))))))))))))))))))))))))))))))))))))))))))))))))))))))))))))))))))))))))))))))))))))))))))))))))))))))))))))))))))))))))))))))))))))))))))))))))))))))))))))))))))))))))))))))))))))))))))))))))))))))))))))))))))))))))))))))))))))))))))))))))))))))))))))))))))))))))))))))))))))))))))))))))))))))))))))))))))))))))))))))))))))))))))))))))))))))))))
                                                                    (sub c1
                                                                    c0))
                                                                    then None
                                                                    else 
                                                                    let (
                                                                    r3, c3) =
                                                                    skip_sp
                                                                    r2
                                                                    (add c2
                                                                    (S (S O)))
                                                                    in
                                                                    (
                                                                    match 
                                                                    flow_node
                                                                    f r3 c3 with
                                                                    | Some p26 ->
                                                                    let (
                                                                    p27, c4) =
                                                                    p26
                                                                    in
                                                                    let (
                                                                    v, r4) =
                                                                    p27
                                                                    in
                                                                    let (
                                                                    r5, c5) =
                                                                    skip_sp
                                                                    r4 c4
                                                                    in
                                                                    (
                                                                    match r5 with
                                                                    | [] ->
                                                                    None
                                                                    | n4 :: r6 ->
                                                                    (match n4 with
                                                                    | N0 ->
                                                                    None
                                                                    | Npos p28 ->
                                                                    (match p28 with
                                                                    | XI p29 ->
                                                                    (match p29 with
                                                                    | XO p30 ->
                                                                    (match p30 with
                                                                    | XI p31 ->
                                                                    (match p31 with
                                                                    | XI p32 ->
                                                                    (match p32 with
                                                                    | XI p33 ->
                                                                    (match p33 with
                                                                    | XI p34 ->
                                                                    (match p34 with
                                                                    | XH ->
                                                                    Some
                                                                    (((build_map
                                                                    (rev
                                                                    (((unnums
                                                                    k),
                                                                    v) :: acc))),
                                                                    r6), (S
                                                                    c5))
                                                                    | _ ->
                                                                    None)
                                                                    | _ ->
                                                                    None)
                                                                    | _ ->
                                                                    None)
                                                                    | _ ->
                                                                    None)
                                                                    | _ ->
                                                                    None)
                                                                    | _ ->
                                                                    None)
                                                                    | XO p29 ->
                                                                    (match p29 with
                                                                    | XO p30 ->
                                                                    (match p30 with
                                                                    | XI p31 ->
                                                                    (match p31 with
                                                                    | XI p32 ->
                                                                    (match p32 with
                                                                    | XO p33 ->
                                                                    (match p33 with
                                                                    | XH ->
                                                                    let (
                                                                    r7, c7) =
                                                                    skip_sp
                                                                    r6 (S c5)
                                                                    in
                                                                    flow_map_items
                                                                    f r7 c7
                                                                    (((unnums
                                                                    k),
                                                                    v) :: acc)
                                                                    | _ ->
                                                                    None)
                                                                    | _ ->
                                                                    None)
                                                                    | _ ->
                                                                    None)
                                                                    | _ ->
                                                                    None)
                                                                    | _ ->
                                                                    None)
                                                                    | XH ->
                                                                    None)))
                                                                    | None ->
                                                                    None)
                                                                    | _ ->
                                                                    None)
                                                                    | _ ->
                                                                    None)
                                                                    | _ ->
                                                                    None)
                                                                    | _ ->
                                                                    None)
                                                                    | _ ->
                                                                    None)
                                                                    | _ ->
                                                                    None)))
                                                                    | _ ->
                                                                    None)
                                                                    | _ ->
                                                                    None)
                                                                    | _ ->
                                                                    None)
                                                                    | _ ->
                                                                    None)
                                                                 | _ -> None)
                                                              | _ -> None)))
                                                     | None -> None)
                                                  | _ ->
                                                    let p11 = (l, c) in
                                                    let explicit = false in
                                                    let (l1, c0) = p11 in
                                                    (match flow_scalar l1 c0 with
                                                     | Some p12 ->
                                                       let (p13, c1) = p12 in
                                                       let (k, r0) = p13 in
                                                       let (r1, c2) =
                                                         skip_sp r0 c1
                                                       in
                                                       (match r1 with
                                                        | [] -> None
                                                        | n2 :: l2 ->
                                                          (match n2 with
                                                           | N0 -> None
                                                           | Npos p14 ->
                                                             (match p14 with
                                                              | XO p15 ->
                                                                (match p15 with
                                                                 | XI p16 ->
                                                                   (match p16 with
                                                                    | XO p17 ->
                                                                    (match p17 with
                                                                    | XI p18 ->
                                                                    (match p18 with
                                                                    | XI p19 ->
                                                                    (match p19 with
                                                                    | XH ->
                                                                    (match l2 with
                                                                    | [] ->
                                                                    None
                                                                    | n3 :: r2 ->
                                                                    (match n3 with
                                                                    | N0 ->
                                                                    None
                                                                    | Npos p20 ->
                                                                    (match p20 with
                                                                    | XO p21 ->
                                                                    (match p21 with
                                                                    | XO p22 ->
                                                                    (match p22 with
                                                                    | XO p23 ->
                                                                    (match p23 with
                                                                    | XO p24 ->
                                                                    (match p24 with
                                                                    | XO p25 ->
                                                                    (match p25 with
                                                                    | XH ->
                                                                    if 
                                                                    (&&)
                                                                    (negb
                                                                    explicit)
                                                                    (Nat.ltb
                                                                    (S (S (S
                                                                    (S (S (S
                                                                    (S (S (S
                                                                    (S (S (S
                                                                    (S (S (S
                                                                    (S (S (S
                                                                    (S (S (S
                                                                    (S (S (S
                                                                    (S (S (S
                                                                    (S (S (S
                                                                    (S (S (S
                                                                    (S (S (S
                                                                    (S (S (S
                                                                    (S (S (S
                                                                    (S (S (S
                                                                    (S (S (S
                                                                    (S (S (S
                                                                    (S (S (S
                                                                    (S (S (S
                                                                    (S (S (S
                                                                    (S (S (S
                                                                    (S (S (S
                                                                    (S (S (S
                                                                    (S (S (S
                                                                    (S (S (S
                                                                    (S (S (S
                                                                    (S (S (S
                                                                    (S (S (S
                                                                    (S (S (S
                                                                    (S (S (S
                                                                    (S (S (S
                                                                    (S (S (S
                                                                    (S (S (S
                                                                    (S (S (S
                                                                    (S (S (S
                                                                    (S (S (S
                                                                    (S (S (S
                                                                    (S (S (S
                                                                    (S (S (S
                                                                    (S (S (S
                                                                    (S (S (S
                                                                    (S (S (S
                                                                    (S (S (S
                                                                    (S (S (S
                                                                    (S (S (S
                                                                    (S (S (S
                                                                    (S (S (S
                                                                    (S (S (S
                                                                    (S (S (S
                                                                    (S (S (S
                                                                    (S (S (S
                                                                    (S (S (S
                                                                    (S (S (S
                                                                    (S (S (S
                                                                    (S (S (S
                                                                    (S (S (S
                                                                    (S (S (S
                                                                    (S (S (S
                                                                    (S (S (S
                                                                    (S (S (S
                                                                    (S (S (S
                                                                    (S (S (S
                                                                    (S (S (S
                                                                    (S (S (S
                                                                    (S (S (S
                                                                    (S (S (S
                                                                    (S (S (S
                                                                    (S (S (S
                                                                    (S (S (S
                                                                    (S (S (S
                                                                    (S (S (S
                                                                    (S (S (S
                                                                    (S (S (S
                                                                    (S (S (S
                                                                    (S (S (S
                                                                    (S (S (S
                                                                    (S (S (S
                                                                    (S (S (S
                                                                    (S (S (S
                                                                    (S (S (S
                                                                    (S (S (S
                                                                    (S (S (S
                                                                    (S (S (S
                                                                    (S (S (S
                                                                    (S (S (S
                                                                    (S (S (S
                                                                    (S (S (S
                                                                    (S (S (S
                                                                    (S (S (S
                                                                    (S (S (S
                                                                    (S (S (S
                                                                    (S (S (S
                                                                    (S (S (S
                                                                    (S (S (S
                                                                    (S (S (S
                                                                    (S (S (S
                                                                    (S (S (S
                                                                    (S (S (S
                                                                    (S (S (S
                                                                    (S (S (S
                                                                    (S (S (S
                                                                    (S (S (S
                                                                    (S (S (S
                                                                    (S (S (S
                                                                    (S (S (S
                                                                    (S (S (S
                                                                    (S (S (S
                                                                    (S (S (S
                                                                    (S (S (S
                                                                    (S (S (S
                                                                    (S (S (S
                                                                    (S (S (S
                                                                    (S (S (S
                                                                    (S (S (S
                                                                    (S (S (S
                                                                    (S (S (S
                                                                    (S (S (S
                                                                    (S (S (S
                                                                    (S (S (S
                                                                    (S (S (S
                                                                    (S (S (S
                                                                    (S (S (S
                                                                    (S (S (S
                                                                    (S (S (S
                                                                    (S (S (S
                                                                    (S (S (S
                                                                    (S (S (S
                                                                    (S (S (S
                                                                    (S (S (S
                                                                    (S (S (S
                                                                    (S (S (S
                                                                    (S (S (S
                                                                    (S (S (S
                                                                    (S (S (S
                                                                    (S (S (S
                                                                    (S (S (S
                                                                    (S (S (S
                                                                    (S (S (S
                                                                    (S (S (S
                                                                    (S (S (S
                                                                    (S (S (S
                                                                    (S (S (S
                                                                    (S (S (S
                                                                    (S (S (S
                                                                    (S (S (S
                                                                    (S (S (S
                                                                    (S (S (S
                                                                    (S (S (S
                                                                    (S (S (S
                                                                    (S (S (S
                                                                    (S (S (S
                                                                    (S (S (S
                                                                    (S (S (S
                                                                    (S (S (S
                                                                    (S (S (S
                                                                    (S (S (S
                                                                    (S (S (S
                                                                    (S (S (S
                                                                    (S (S (S
                                                                    (S (S (S
                                                                    (S (S (S
                                                                    (S (S (S
                                                                    (S (S (S
                                                                    (S (S (S
                                                                    (S (S (S
                                                                    (S (S (S
                                                                    (S (S (S
                                                                    (S (S (S
                                                                    (S (S (S
                                                                    (S (S (S
                                                                    (S (S (S
                                                                    (S (S (S
                                                                    (S (S (S
                                                                    (S (S (S
                                                                    (S (S (S
                                                                    (S (S (S
                                                                    (S (S (S
                                                                    (S (S (S
                                                                    (S (S (S
                                                                    (S (S (S
                                                                    (S (S (S
                                                                    (S (S (S
                                                                    (S (S (S
                                                                    (S (S (S
                                                                    (S (S (S
                                                                    (S (S (S
                                                                    (S (S (S
                                                                    (S (S (S
                                                                    (S (S (S
                                                                    (S (S (S
                                                                    (S (S (S
                                                                    (S (S (S
                                                                    (S (S (S
                                                                    (S (S (S
                                                                    (S (S (S
                                                                    (S (S (S
                                                                    (S (S (S
                                                                    (S (S (S
                                                                    (S (S (S
                                                                    (S (S (S
                                                                    (S (S (S
                                                                    (S (S (S
                                                                    (S (S (S
                                                                    (S (S (S
                                                                    (S (S (S
                                                                    (S (S (S
                                                                    (S (S (S
                                                                    (S (S (S
                                                                    (S (S (S
                                                                    (S (S (S
                                                                    (S (S (S
                                                                    (S (S (S
                                                                    (S (S (S
                                                                    (S (S (S
                                                                    (S (S (S
                                                                    (S (S (S
                                                                    (S (S (S
                                                                    (S (S (S
                                                                    (S (S (S
                                                                    (S (S (S
                                                                    (S (S (S
                                                                    (S (S (S
                                                                    (S (S (S
                                                                    (S (S (S
                                                                    (S (S (S
                                                                    (S (S (S
                                                                    (S (S (S
                                                                    (S (S (S
                                                                    (S (S (S
                                                                    (S (S (S
                                                                    (S (S (S
                                                                    (S (S (S
                                                                    (S (S (S
                                                                    (S (S (S
                                                                    (S (S (S
                                                                    (S (S (S
                                                                    (S (S (S
                                                                    (S (S (S
                                                                    (S (S (S
                                                                    (S (S (S
                                                                    (S (S (S
                                                                    (S (S (S
                                                                    (S (S (S
                                                                    (S (S (S
                                                                    (S (S (S
                                                                    (S (S (S
                                                                    (S (S (S
                                                                    (S (S (S
                                                                    (S (S (S
                                                                    (S (S (S
                                                                    (S (S (S
                                                                    (S (S (S
                                                                    (S (S (S
                                                                    (S (S (S
                                                                    (S (S (S
                                                                    (S (S (S
                                                                    (S (S (S
                                                                    (S (S (S
                                                                    (S (S (S
                                                                    (S (S (S
                                                                    (S (S (S
                                                                    (S (S (S
                                                                    (S (S (S
                                                                    (S (S (S
                                                                    (S (S (S
                                                                    (S (S (S
                                                                    (S (S (S
                                                                    (S (S (S
                                                                    (S (S (S
                                                                    (S (S (S
                                                                    (S (S (S
                                                                    (S (S (S
                                                                    (S (S (S
                                                                    (S (S (S
                                                                    (S (S (S
                                                                    (S (S (S
                                                                    (S (S (S
                                                                    (S (S (S
                                                                    (S (S (S
                                                                    (S (S (S
                                                                    (S (S (S
                                                                    (S (S (S
                                                                    (S (S (S
                                                                    (S (S (S
                                                                    (S (S (S
                                                                    (S (S (S
                                                                    (S (S (S
                                                                    (S (S (S
                                                                    (S (S (S
                                                                    (S (S (S
                                                                    (S (S (S
                                                                    (S (S (S
                                                                    (S (S (S
                                                                    (S (S (S
                                                                    (S (S (S
                                                                    (S (S (S
                                                                    (S (S (S
                                                                    (S (S (S
                                                                    (S (S (S
                                                                    (S (S (S
                                                                    (S (S (S
                                                                    (S (S (S
                                                                    (S (S (S
                                                                    (S (S (S
                                                                    (S (S (S
                                                                    (S (S (S
                                                                    (S (S (S
                                                                    (S (S (S
                                                                    (S (S (S
                                                                    (S (S (S
                                                                    (S (S (S
                                                                    (S (S (S
                                                                    (S (S (S
                                                                    (S (S (S
                                                                    (S (S (S
                                                                    (S (S (S
                                                                    (S (S (S
                                                                    (S (S (S
                                                                    (S (S (S
                                                                    (S (S (S
                                                                    (S (S (S
                                                                    (S (S (S
                                                                    (S (S (S
                                                                    (S (S (S
                                                                    (S (S (S
                                                                    (S (S (S
                                                                    (S (S (S
                                                                    (S (S (S
                                                                    (S (S (S
                                                                    (S (S (S
                                                                    (S (S (S
                                                                    (S (S (S
                                                                    (S (S (S
                                                                    (S (S (S
                                                                    (S (S (S
                                                                    (S (S (S
                                                                    (S (S (S
                                                                    (S (S (S
                                                                    (S (S (S
                                                                    (S (S (S
                                                                    (S (S (S
                                                                    (S
                                                                    O))))))))))))))))))))))))))))))))))))))))))))))))))))))))))))))))))))))))))))))))))))))))))))))))))))))))))))))))))))))))))))))))))))))))))))))))))))))))))))))))))))))))))))))))))))))))))))))))))))))))))))))))))))))))))))))))))))))))))))))))))))))))))))))))))))))))))))))))))))))))))))))))))))))))))))))))))))))))))))))))))))))))))))))))))))))))))))))))))))))))))))))))))))))))))))))))))))))))))))))))))))))))))))))))))))))))))))))))))))))))))))))))))))))))))))))))))))))))))))))))))))))))))))))))))))))))))))))))))))))))))))))))))))))))))))))))))))))))))))))))))))))))))))))))))))))))))))))))))))))))))))))))))))))))))))))))))))))))))))))))))))))))))))))))))))))))))))))))))))))))))))))))))))))))))))))))))))))))))))))))))))))))))))))))))))))))))))))))))))))))))))))))))))))))))))))))))))))))))))))))))))))))))))))))))))))))))))))))))))))))))))))))))))))))))))))))))))))))))))))))))))))))))))))))))))))))))))))))))))))))))))))))))))))))))))))))))))))))))))))))))))))))))))))))))))))))))))))))))))))))))))))))))))))))))))))))
                                                                    (sub c1
                                                                    c0))
                                                                    then None
                                                                    else 
                                                                    let (
                                                                    r3, c3) =
                                                                    skip_sp
                                                                    r2
                                                                    (add c2
                                                                    (S (S O)))
                                                                    in
                                                                    (
                                                                    match 
                                                                    flow_node
                                                                    f r3 c3 with
                                                                    | Some p26 ->
                                                                    let (
                                                                    p27, c4) =
                                                                    p26
                                                                    in
                                                                    let (
                                                                    v, r4) =
                                                                    p27
                                                                    in
                                                                    let (
                                                                    r5, c5) =
                                                                    skip_sp
                                                                    r4 c4
                                                                    in
                                                                    (
                                                                    match r5 with
                                                                    | [] ->
                                                                    None
                                                                    | n4 :: r6 ->
                                                                    (match n4 with
                                                                    | N0 ->
                                                                    None
                                                                    | Npos p28 ->
                                                                    (match p28 with
                                                                    | XI p29 ->
                                                                    (match p29 with
                                                                    | XO p30 ->
                                                                    (match p30 with
                                                                    | XI p31 ->
                                                                    (match p31 with
                                                                    | XI p32 ->
                                                                    (match p32 with
                                                                    | XI p33 ->
                                                                    (match p33 with
                                                                    | XI p34 ->
                                                                    (match p34 with
                                                                    | XH ->
                                                                    Some
                                                                    (((build_map
                                                                    (rev
                                                                    (((unnums
                                                                    k),
                                                                    v) :: acc))),
                                                                    r6), (S
                                                                    c5))
                                                                    | _ ->
                                                                    None)
                                                                    | _ ->
                                                                    None)
                                                                    | _ ->
                                                                    None)
                                                                    | _ ->
                                                                    None)
                                                                    | _ ->
                                                                    None)
                                                                    | _ ->
                                                                    None)
                                                                    | XO p29 ->
                                                                    (match p29 with
                                                                    | XO p30 ->
                                                                    (match p30 with
                                                                    | XI p31 ->
                                                                    (match p31 with
                                                                    | XI p32 ->
                                                                    (match p32 with
                                                                    | XO p33 ->
                                                                    (match p33 with
                                                                    | XH ->
                                                                    let (
                                                                    r7, c7) =
                                                                    skip_sp
                                                                    r6 (S c5)
                                                                    in
                                                                    flow_map_items
                                                                    f r7 c7
                                                                    (((unnums
                                                                    k),
                                                                    v) :: acc)
                                                                    | _ ->
                                                                    None)
                                                                    | _ ->
                                                                    None)
                                                                    | _ ->
                                                                    None)
                                                                    | _ ->
                                                                    None)
                                                                    | _ ->
                                                                    None)
                                                                    | XH ->
                                                                    None)))
                                                                    | None ->
                                                                    None)
                                                                    | _ ->
                                                                    None)
                                                                    | _ ->
                                                                    None)
                                                                    | _ ->
                                                                    None)
                                                                    | _ ->
                                                                    None)
                                                                    | _ ->
                                                                    None)
                                                                    | _ ->
                                                                    None)))
                                                                    | _ ->
                                                                    None)
                                                                    | _ ->
                                                                    None)
                                                                    | _ ->
                                                                    None)
                                                                    | _ ->
                                                                    None)
                                                                 | _ -> None)
                                                              | _ -> None)))
                                                     | None -> None))
                                               | _ ->
                                                 let p10 = (l, c) in
                                                 let explicit = false in
                                                 let (l1, c0) = p10 in
                                                 (match flow_scalar l1 c0 with
                                                  | Some p11 ->
                                                    let (p12, c1) = p11 in
                                                    let (k, r0) = p12 in
                                                    let (r1, c2) =
                                                      skip_sp r0 c1
                                                    in
                                                    (match r1 with
                                                     | [] -> None
                                                     | n2 :: l2 ->
                                                       (match n2 with
                                                        | N0 -> None
                                                        | Npos p13 ->
                                                          (match p13 with
                                                           | XO p14 ->
                                                             (match p14 with
                                                              | XI p15 ->
                                                                (match p15 with
                                                                 | XO p16 ->
                                                                   (match p16 with
                                                                    | XI p17 ->
                                                                    (match p17 with
                                                                    | XI p18 ->
                                                                    (match p18 with
                                                                    | XH ->
                                                                    (match l2 with
                                                                    | [] ->
                                                                    None
                                                                    | n3 :: r2 ->
                                                                    (match n3 with
                                                                    | N0 ->
                                                                    None
                                                                    | Npos p19 ->
                                                                    (match p19 with
                                                                    | XO p20 ->
                                                                    (match p20 with
                                                                    | XO p21 ->
                                                                    (match p21 with
                                                                    | XO p22 ->
                                                                    (match p22 with
                                                                    | XO p23 ->
                                                                    (match p23 with
                                                                    | XO p24 ->
                                                                    (match p24 with
                                                                    | XH ->
                                                                    if 
                                                                    (&&)
                                                                    (negb
                                                                    explicit)
                                                                    (Nat.ltb
                                                                    (S (S (S
                                                                    (S (S (S
                                                                    (S (S (S
                                                                    (S (S (S
                                                                    (S (S (S
                                                                    (S (S (S
                                                                    (S (S (S
                                                                    (S (S (S
                                                                    (S (S (S
                                                                    (S (S (S
                                                                    (S (S (S
                                                                    (S (S (S
                                                                    (S (S (S
                                                                    (S (S (S
                                                                    (S (S (S
                                                                    (S (S (S
                                                                    (S (S (S
                                                                    (S (S (S
                                                                    (S (S (S
                                                                    (S (S (S
                                                                    (S (S (S
                                                                    (S (S (S
                                                                    (S (S (S
                                                                    (S (S (S
                                                                    (S (S (S
                                                                    (S (S (S
                                                                    (S (S (S
                                                                    (S (S (S
                                                                    (S (S (S
                                                                    (S (S (S
                                                                    (S (S (S
                                                                    (S (S (S
                                                                    (S (S (S
                                                                    (S (S (S
                                                                    (S (S (S
                                                                    (S (S (S
                                                                    (S (S (S
                                                                    (S (S (S
                                                                    (S (S (S
                                                                    (S (S (S
                                                                    (S (S (S
                                                                    (S (S (S
                                                                    (S (S (S
                                                                    (S (S (S
                                                                    (S (S (S
                                                                    (S (S (S
                                                                    (S (S (S
                                                                    (S (S (S
                                                                    (S (S (S
                                                                    (S (S (S
                                                                    (S (S (S
                                                                    (S (S (S
                                                                    (S (S (S
                                                                    (S (S (S
                                                                    (S (S (S
                                                                    (S (S (S
                                                                    (S (S (S
                                                                    (S (S (S
                                                                    (S (S (S
                                                                    (S (S (S
                                                                    (S (S (S
                                                                    (S (S (S
                                                                    (S (S (S
                                                                    (S (S (S
                                                                    (S (S (S
                                                                    (S (S (S
                                                                    (S (S (S
                                                                    (S (S (S
                                                                    (S (S (S
                                                                    (S (S (S
                                                                    (S (S (S
                                                                    (S (S (S
                                                                    (S (S (S
                                                                    (S (S (S
                                                                    (S (S (S
                                                                    (S (S (S
                                                                    (S (S (S
                                                                    (S (S (S
                                                                    (S (S (S
                                                                    (S (S (S
                                                                    (S (S (S
                                                                    (S (S (S
                                                                    (S (S (S
                                                                    (S (S (S
                                                                    (S (S (S
                                                                    (S (S (S
                                                                    (S (S (S
                                                                    (S (S (S
                                                                    (S (S (S
                                                                    (S (S (S
                                                                    (S (S (S
                                                                    (S (S (S
                                                                    (S (S (S
                                                                    (S (S (S
                                                                    (S (S (S
                                                                    (S (S (S
                                                                    (S (S (S
                                                                    (S (S (S
                                                                    (S (S (S
                                                                    (S (S (S
                                                                    (S (S (S
                                                                    (S (S (S
                                                                    (S (S (S
                                                                    (S (S (S
                                                                    (S (S (S
                                                                    (S (S (S
                                                                    (S (S (S
                                                                    (S (S (S
                                                                    (S (S (S
                                                                    (S (S (S
                                                                    (S (S (S
                                                                    (S (S (S
                                                                    (S (S (S
                                                                    (S (S (S
                                                                    (S (S (S
                                                                    (S (S (S
                                                                    (S (S (S
                                                                    (S (S (S
                                                                    (S (S (S
                                                                    (S (S (S
                                                                    (S (S (S
                                                                    (S (S (S
                                                                    (S (S (S
                                                                    (S (S (S
                                                                    (S (S (S
                                                                    (S (S (S
                                                                    (S (S (S
                                                                    (S (S (S
                                                                    (S (S (S
                                                                    (S (S (S
                                                                    (S (S (S
                                                                    (S (S (S
                                                                    (S (S (S
                                                                    (S (S (S
                                                                    (S (S (S
                                                                    (S (S (S
                                                                    (S (S (S
                                                                    (S (S (S
                                                                    (S (S (S
                                                                    (S (S (S
                                                                    (S (S (S
                                                                    (S (S (S
                                                                    (S (S (S
                                                                    (S (S (S
                                                                    (S (S (S
                                                                    (S (S (S
                                                                    (S (S (S
                                                                    (S (S (S
                                                                    (S (S (S
                                                                    (S (S (S
                                                                    (S (S (S
                                                                    (S (S (S
                                                                    (S (S (S
                                                                    (S (S (S
                                                                    (S (S (S
                                                                    (S (S (S
                                                                    (S (S (S
                                                                    (S (S (S
                                                                    (S (S (S
                                                                    (S (S (S
                                                                    (S (S (S
                                                                    (S (S (S
                                                                    (S (S (S
                                                                    (S (S (S
                                                                    (S (S (S
                                                                    (S (S (S
                                                                    (S (S (S
                                                                    (S (S (S
                                                                    (S (S (S
                                                                    (S (S (S
                                                                    (S (S (S
                                                                    (S (S (S
                                                                    (S (S (S
                                                                    (S (S (S
                                                                    (S (S (S
                                                                    (S (S (S
                                                                    (S (S (S
                                                                    (S (S (S
                                                                    (S (S (S
                                                                    (S (S (S
                                                                    (S (S (S
                                                                    (S (S (S
                                                                    (S (S (S
                                                                    (S (S (S
                                                                    (S (S (S
                                                                    (S (S (S
                                                                    (S (S (S
                                                                    (S (S (S
                                                                    (S (S (S
                                                                    (S (S (S
                                                                    (S (S (S
                                                                    (S (S (S
                                                                    (S (S (S
                                                                    (S (S (S
                                                                    (S (S (S
                                                                    (S (S (S
                                                                    (S (S (S
                                                                    (S (S (S
                                                                    (S (S (S
                                                                    (S (S (S
                                                                    (S (S (S
                                                                    (S (S (S
                                                                    (S (S (S
                                                                    (S (S (S
                                                                    (S (S (S
                                                                    (S (S (S
                                                                    (S (S (S
                                                                    (S (S (S
                                                                    (S (S (S
                                                                    (S (S (S
                                                                    (S (S (S
                                                                    (S (S (S
                                                                    (S (S (S
                                                                    (S (S (S
                                                                    (S (S (S
                                                                    (S (S (S
                                                                    (S (S (S
                                                                    (S (S (S
                                                                    (S (S (S
                                                                    (S (S (S
                                                                    (S (S (S
                                                                    (S (S (S
                                                                    (S (S (S
                                                                    (S (S (S
                                                                    (S (S (S
                                                                    (S (S (S
                                                                    (S (S (S
                                                                    (S (S (S
                                                                    (S (S (S
                                                                    (S (S (S
                                                                    (S (S (S
                                                                    (S (S (S
                                                                    (S (S (S
                                                                    (S (S (S
                                                                    (S (S (S
                                                                    (S (S (S
                                                                    (S (S (S
                                                                    (S (S (S
                                                                    (S (S (S
                                                                    (S (S (S
                                                                    (S (S (S
                                                                    (S (S (S
                                                                    (S (S (S
                                                                    (S (S (S
                                                                    (S (S (S
                                                                    (S (S (S
                                                                    (S (S (S
                                                                    (S (S (S
                                                                    (S (S (S
                                                                    (S (S (S
                                                                    (S (S (S
                                                                    (S (S (S
                                                                    (S (S (S
                                                                    (S (S (S
                                                                    (S (S (S
                                                                    (S (S (S
                                                                    (S (S (S
                                                                    (S (S (S
                                                                    (S (S (S
                                                                    (S (S (S
                                                                    (S (S (S
                                                                    (S (S (S
                                                                    (S (S (S
                                                                    (S (S (S
                                                                    (S (S (S
                                                                    (S (S (S
                                                                    (S (S (S
                                                                    (S (S (S
                                                                    (S (S (S
                                                                    (S (S (S
                                                                    (S (S (S
                                                                    (S (S (S
                                                                    (S (S (S
                                                                    (S (S (S
                                                                    (S (S (S
                                                                    (S (S (S
                                                                    (S (S (S
                                                                    (S (S (S
                                                                    (S (S (S
                                                                    (S (S (S
                                                                    (S (S (S
                                                                    (S (S (S
                                                                    (S (S (S
                                                                    (S (S (S
                                                                    (S (S (S
                                                                    (S (S (S
                                                                    (S (S (S
                                                                    (S (S (S
                                                                    (S (S (S
                                                                    (S (S (S
                                                                    (S (S (S
                                                                    (S (S (S
                                                                    (S (S (S
                                                                    (S (S (S
                                                                    (S (S (S
                                                                    (S (S (S
                                                                    (S (S (S
                                                                    (S (S (S
                                                                    (S (S (S
                                                                    (S (S (S
                                                                    (S (S (S
                                                                    (S (S (S
                                                                    (S (S (S
                                                                    (S (S (S
                                                                    (S (S (S
                                                                    (S (S (S
                                                                    (S (S (S
                                                                    (S (S (S
                                                                    (S (S (S
                                                                    (S (S (S
                                                                    (S (S (S
                                                                    (S (S (S
                                                                    (S (S (S
                                                                    (S (S (S
                                                                    (S (S (S
                                                                    (S (S (S
                                                                    (S (S (S
                                                                    (S (S (S
                                                                    (S (S (S
                                                                    (S (S (S
                                                                    (S (S (S
                                                                    (S (S (S
                                                                    (S (S (S
                                                                    (S (S (S
                                                                    (S (S (S
                                                                    (S (S (S
                                                                    (S (S (S
                                                                    (S (S (S
                                                                    (S (S (S
                                                                    (S (S (S
                                                                    (S (S (S
                                                                    (S (S (S
                                                                    (S (S (S
                                                                    (S (S (S
                                                                    (S (S (S
                                                                    (S (S (S
                                                                    (S (S (S
                                                                    (S (S (S
                                                                    (S (S (S
                                                                    (S (S (S
                                                                    (S (S (S
                                                                    (S
                                                                    O))))))))))))))))))))))))))))))))))))))))))))))))))))))))))))))))))))))))))))))))))))))))))))))))))))))))))))))))))))))))))))))))))))))))))))))))))))))))))))))))))))))))))))))))))))))))))))))))))))))))))))))))))))))))))))))))))))))))))))))))))))))))))))))))))))))))))))))))))))))))))))))))))))))))))))))))))))))))))))))))))))))))))))))))))))))))))))))))))))))))))))))))))))))))))))))))))))))))))))))))))))))))))))))))))))))))))))))))))))))))))))))))))))))))))))))))))))))))))))))))))))))))))))))))))))))))))))))))))))))))))))))))))))))))))))))))))))))))))))))))))))))))))))))))))))))))))))))))))))))))))))))))))))))))))))))))))))))))))))))))))))))))))))))))))))))))))))))))))))))))))))))))))))))))))))))))))))))))))))))))))))))))))))))))))))))))))))))))))))))))))))))))))))))))))))))))))))))))))))))))))))))))))))))))))))))))))))))))))))))))))))))))))))))))))))))))))))))))))))))))))))))))))))))))))))))))))))))))))))))))))))))))))))))))))))))))))))))))))))))))))))))))))))))))))))))))))))))))))))))))))))))))))))))))))))))))
                                                                    (sub c1
                                                                    c0))
                                                                    then None
                                                                    else 
                                                                    let (
                                                                    r3, c3) =
                                                                    skip_sp
                                                                    r2
                                                                    (add c2
                                                                    (S (S O)))
                                                                    in
                                                                    (
                                                                    match 
                                                                    flow_node
                                                                    f r3 c3 with
                                                                    | Some p25 ->
                                                                    let (
                                                                    p26, c4) =
                                                                    p25
                                                                    in
                                                                    let (
                                                                    v, r4) =
                                                                    p26
                                                                    in
                                                                    let (
                                                                    r5, c5) =
                                                                    skip_sp
                                                                    r4 c4
                                                                    in
                                                                    (
                                                                    match r5 with
                                                                    | [] ->
                                                                    None
                                                                    | n4 :: r6 ->
                                                                    (match n4 with
                                                                    | N0 ->
                                                                    None
                                                                    | Npos p27 ->
                                                                    (match p27 with
                                                                    | XI p28 ->
                                                                    (match p28 with
                                                                    | XO p29 ->
                                                                    (match p29 with
                                                                    | XI p30 ->
                                                                    (match p30 with
                                                                    | XI p31 ->
                                                                    (match p31 with
                                                                    | XI p32 ->
                                                                    (match p32 with
                                                                    | XI p33 ->
                                                                    (match p33 with
                                                                    | XH ->
                                                                    Some
                                                                    (((build_map
                                                                    (rev
                                                                    (((unnums
                                                                    k),
                                                                    v) :: acc))),
                                                                    r6), (S
                                                                    c5))
                                                                    | _ ->
                                                                    None)
                                                                    | _ ->
                                                                    None)
                                                                    | _ ->
                                                                    None)
                                                                    | _ ->
                                                                    None)
                                                                    | _ ->
                                                                    None)
                                                                    | _ ->
                                                                    None)
                                                                    | XO p28 ->
                                                                    (match p28 with
                                                                    | XO p29 ->
                                                                    (match p29 with
                                                                    | XI p30 ->
                                                                    (match p30 with
                                                                    | XI p31 ->
                                                                    (match p31 with
                                                                    | XO p32 ->
                                                                    (match p32 with
                                                                    | XH ->
                                                                    let (
                                                                    r7, c7) =
                                                                    skip_sp
                                                                    r6 (S c5)
                                                                    in
                                                                    flow_map_items
                                                                    f r7 c7
                                                                    (((unnums
                                                                    k),
                                                                    v) :: acc)
                                                                    | _ ->
                                                                    None)
                                                                    | _ ->
                                                                    None)
                                                                    | _ ->
                                                                    None)
                                                                    | _ ->
                                                                    None)
                                                                    | _ ->
                                                                    None)
                                                                    | XH ->
                                                                    None)))
                                                                    | None ->
                                                                    None)
                                                                    | _ ->
                                                                    None)
                                                                    | _ ->
                                                                    None)
                                                                    | _ ->
                                                                    None)
                                                                    | _ ->
                                                                    None)
                                                                    | _ ->
                                                                    None)
                                                                    | _ ->
                                                                    None)))
                                                                    | _ ->
                                                                    None)
                                                                    | _ ->
                                                                    None)
                                                                    | _ ->
                                                                    None)
                                                                 | _ -> None)
                                                              | _ -> None)
                                                           | _ -> None)))
                                                  | None -> None))
                                            | _ ->
                                              let p9 = (l, c) in
                                              let explicit = false in
                                              let (l1, c0) = p9 in
                                              (match flow_scalar l1 c0 with
                                               | Some p10 ->
                                                 let (p11, c1) = p10 in
                                                 let (k, r0) = p11 in
                                                 let (r1, c2) = skip_sp r0 c1
                                                 in
                                                 (match r1 with
                                                  | [] -> None
                                                  | n2 :: l2 ->
                                                    (match n2 with
                                                     | N0 -> None
                                                     | Npos p12 ->
                                                       (match p12 with
                                                        | XO p13 ->
                                                          (match p13 with
                                                           | XI p14 ->
                                                             (match p14 with
                                                              | XO p15 ->
                                                                (match p15 with
                                                                 | XI p16 ->
                                                                   (match p16 with
                                                                    | XI p17 ->
                                                                    (match p17 with
                                                                    | XH ->
                                                                    (match l2 with
                                                                    | [] ->
                                                                    None
                                                                    | n3 :: r2 ->
                                                                    (match n3 with
                                                                    | N0 ->
                                                                    None
                                                                    | Npos p18 ->
                                                                    (match p18 with
                                                                    | XO p19 ->
                                                                    (match p19 with
                                                                    | XO p20 ->
                                                                    (match p20 with
                                                                    | XO p21 ->
                                                                    (match p21 with
                                                                    | XO p22 ->
                                                                    (match p22 with
                                                                    | XO p23 ->
                                                                    (match p23 with
                                                                    | XH ->
                                                                    if 
                                                                    (&&)
                                                                    (negb
                                                                    explicit)
                                                                    (Nat.ltb
                                                                    (S (S (S
                                                                    (S (S (S
                                                                    (S (S (S
                                                                    (S (S (S
                                                                    (S (S (S
                                                                    (S (S (S
                                                                    (S (S (S
                                                                    (S (S (S
                                                                    (S (S (S
                                                                    (S (S (S
                                                                    (S (S (S
                                                                    (S (S (S
                                                                    (S (S (S
                                                                    (S (S (S
                                                                    (S (S (S
                                                                    (S (S (S
                                                                    (S (S (S
                                                                    (S (S (S
                                                                    (S (S (S
                                                                    (S (S (S
                                                                    (S (S (S
                                                                    (S (S (S
                                                                    (S (S (S
                                                                    (S (S (S
                                                                    (S (S (S
                                                                    (S (S (S
                                                                    (S (S (S
                                                                    (S (S (S
                                                                    (S (S (S
                                                                    (S (S (S
                                                                    (S (S (S
                                                                    (S (S (S
                                                                    (S (S (S
                                                                    (S (S (S
                                                                    (S (S (S
                                                                    (S (S (S
                                                                    (S (S (S
                                                                    (S (S (S
                                                                    (S (S (S
                                                                    (S (S (S
                                                                    (S (S (S
                                                                    (S (S (S
                                                                    (S (S (S
                                                                    (S (S (S
                                                                    (S (S (S
                                                                    (S (S (S
                                                                    (S (S (S
                                                                    (S (S (S
                                                                    (S (S (S
                                                                    (S (S (S
                                                                    (S (S (S
                                                                    (S (S (S
                                                                    (S (S (S
                                                                    (S (S (S
                                                                    (S (S (S
                                                                    (S (S (S
                                                                    (S (S (S
                                                                    (S (S (S
                                                                    (S (S (S
                                                                    (S (S (S
                                                                    (S (S (S
                                                                    (S (S (S
                                                                    (S (S (S
                                                                    (S (S (S
                                                                    (S (S (S
                                                                    (S (S (S
                                                                    (S (S (S
                                                                    (S (S (S
                                                                    (S (S (S
                                                                    (S (S (S
                                                                    (S (S (S
                                                                    (S (S (S
                                                                    (S (S (S
                                                                    (S (S (S
                                                                    (S (S (S
                                                                    (S (S (S
                                                                    (S (S (S
                                                                    (S (S (S
                                                                    (S (S (S
                                                                    (S (S (S
                                                                    (S (S (S
                                                                    (S (S (S
                                                                    (S (S (S
                                                                    (S (S (S
                                                                    (S (S (S
                                                                    (S (S (S
                                                                    (S (S (S
                                                                    (S (S (S
                                                                    (S (S (S
                                                                    (S (S (S
                                                                    (S (S (S
                                                                    (S (S (S
                                                                    (S (S (S
                                                                    (S (S (S
                                                                    (S (S (S
                                                                    (S (S (S
                                                                    (S (S (S
                                                                    (S (S (S
                                                                    (S (S (S
                                                                    (S (S (S
                                                                    (S (S (S
                                                                    (S (S (S
                                                                    (S (S (S
                                                                    (S (S (S
                                                                    (S (S (S
                                                                    (S (S (S
                                                                    (S (S (S
                                                                    (S (S (S
                                                                    (S (S (S
                                                                    (S (S (S
                                                                    (S (S (S
                                                                    (S (S (S
                                                                    (S (S (S
                                                                    (S (S (S
                                                                    (S (S (S
                                                                    (S (S (S
                                                                    (S (S (S
                                                                    (S (S (S
                                                                    (S (S (S
                                                                    (S (S (S
                                                                    (S (S (S
                                                                    (S (S (S
                                                                    (S (S (S
                                                                    (S (S (S
                                                                    (S (S (S
                                                                    (S (S (S
                                                                    (S (S (S
                                                                    (S (S (S
                                                                    (S (S (S
                                                                    (S (S (S
                                                                    (S (S (S
                                                                    (S (S (S
                                                                    (S (S (S
                                                                    (S (S (S
                                                                    (S (S (S
                                                                    (S (S (S
                                                                    (S (S (S
                                                                    (S (S (S
                                                                    (S (S (S
                                                                    (S (S (S
                                                                    (S (S (S
                                                                    (S (S (S
                                                                    (S (S (S
                                                                    (S (S (S
                                                                    (S (S (S
                                                                    (S (S (S
                                                                    (S (S (S
                                                                    (S (S (S
                                                                    (S (S (S
                                                                    (S (S (S
                                                                    (S (S (S
                                                                    (S (S (S
                                                                    (S (S (S
                                                                    (S (S (S
                                                                    (S (S (S
                                                                    (S (S (S
                                                                    (S (S (S
                                                                    (S (S (S
                                                                    (S (S (S
                                                                    (S (S (S
                                                                    (S (S (S
                                                                    (S (S (S
                                                                    (S (S (S
                                                                    (S (S (S
                                                                    (S (S (S
                                                                    (S (S (S
                                                                    (S (S (S
                                                                    (S (S (S
                                                                    (S (S (S
                                                                    (S (S (S
                                                                    (S (S (S
                                                                    (S (S (S
                                                                    (S (S (S
                                                                    (S (S (S
                                                                    (S (S (S
                                                                    (S (S (S
                                                                    (S (S (S
                                                                    (S (S (S
                                                                    (S (S (S
                                                                    (S (S (S
                                                                    (S (S (S
                                                                    (S (S (S
                                                                    (S (S (S
                                                                    (S (S (S
                                                                    (S (S (S
                                                                    (S (S (S
                                                                    (S (S (S
                                                                    (S (S (S
                                                                    (S (S (S
                                                                    (S (S (S
                                                                    (S (S (S
                                                                    (S (S (S
                                                                    (S (S (S
                                                                    (S (S (S
                                                                    (S (S (S
                                                                    (S (S (S
                                                                    (S (S (S
                                                                    (S (S (S
                                                                    (S (S (S
                                                                    (S (S (S
                                                                    (S (S (S
                                                                    (S (S (S
                                                                    (S (S (S
                                                                    (S (S (S
                                                                    (S (S (S
                                                                    (S (S (S
                                                                    (S (S (S
                                                                    (S (S (S
                                                                    (S (S (S
                                                                    (S (S (S
                                                                    (S (S (S
                                                                    (S (S (S
                                                                    (S (S (S
                                                                    (S (S (S
                                                                    (S (S (S
                                                                    (S (S (S
                                                                    (S (S (S
                                                                    (S (S (S
                                                                    (S (S (S
                                                                    (S (S (S
                                                                    (S (S (S
                                                                    (S (S (S
                                                                    (S (S (S
                                                                    (S (S (S
                                                                    (S (S (S
                                                                    (S (S (S
                                                                    (S (S (S
                                                                    (S (S (S
                                                                    (S (S (S
                                                                    (S (S (S
                                                                    (S (S (S
                                                                    (S (S (S
                                                                    (S (S (S
                                                                    (S (S (S
                                                                    (S (S (S
                                                                    (S (S (S
                                                                    (S (S (S
                                                                    (S (S (S
                                                                    (S (S (S
                                                                    (S (S (S
                                                                    (S (S (S
                                                                    (S (S (S
                                                                    (S (S (S
                                                                    (S (S (S
                                                                    (S (S (S
                                                                    (S (S (S
                                                                    (S (S (S
                                                                    (S (S (S
                                                                    (S (S (S
                                                                    (S (S (S
                                                                    (S (S (S
                                                                    (S (S (S
                                                                    (S (S (S
                                                                    (S (S (S
                                                                    (S (S (S
                                                                    (S (S (S
                                                                    (S (S (S
                                                                    (S (S (S
                                                                    (S (S (S
                                                                    (S (S (S
                                                                    (S (S (S
                                                                    (S (S (S
                                                                    (S (S (S
                                                                    (S (S (S
                                                                    (S (S (S
                                                                    (S (S (S
                                                                    (S (S (S
                                                                    (S (S (S
                                                                    (S (S (S
                                                                    (S (S (S
                                                                    (S (S (S
                                                                    (S (S (S
                                                                    (S (S (S
                                                                    (S (S (S
                                                                    (S (S (S
                                                                    (S (S (S
                                                                    (S (S (S
                                                                    (S (S (S
                                                                    (S (S (S
                                                                    (S (S (S
                                                                    (S (S (S
                                                                    (S (S (S
                                                                    (S (S (S
                                                                    (S (S (S
                                                                    (S (S (S
                                                                    (S (S (S
                                                                    (S (S (S
                                                                    (S (S (S
                                                                    (S (S (S
                                                                    (S (S (S
                                                                    (S (S (S
                                                                    (S (S (S
                                                                    (S (S (S
                                                                    (S (S (S
                                                                    (S (S (S
                                                                    (S (S (S
                                                                    (S (S (S
                                                                    (S (S (S
                                                                    (S (S (S
                                                                    (S (S (S
                                                                    (S (S (S
                                                                    (S (S (S
                                                                    (S (S (S
                                                                    (S (S (S
                                                                    (S (S (S
                                                                    (S (S (S
                                                                    (S (S (S
                                                                    (S (S (S
                                                                    (S (S (S
                                                                    (S (S (S
                                                                    (S (S (S
                                                                    (S (S (S
                                                                    (S (S (S
                                                                    (S (S (S
                                                                    (S (S (S
                                                                    (S (S (S
                                                                    (S (S (S
                                                                    (S (S (S
                                                                    (S (S (S
                                                                    (S (S (S
                                                                    (S (S (S
                                                                    (S (S (S
                                                                    (S (S (S
                                                                    (S (S (S
                                                                    (S (S (S
                                                                    (S (S (S
                                                                    (S (S (S
                                                                    (S (S (S
                                                                    (S (S (S
                                                                    (S (S (S
                                                                    (S (S (S
                                                                    (S (S (S
                                                                    (S (S (S
                                                                    (S (S (S
                                                                    (S (S (S
                                                                    (S (S (S
                                                                    (S (S (S
                                                                    (S (S (S
                                                                    (S (S (S
                                                                    (S (S (S
                                                                    (S (S (S
                                                                    (S
                                                                    O))))))))))))))))))))))))))))))))))))))))))))))))))))))))))))))))))))))))))))))))))))))))))))))))))))))))))))))))))))))))))))))))))))))))))))))))))))))))))))))))))))))))))))))))))))))))))))))))))))))))))))))))))))))))))))))))))))))))))))))))))))))))))))))))))))))))))))))))))))))))))))))))))))))))))))))))))))))))))))))))))))))))))))))))))))))))))))))))))))))))))))))))))))))))))))))))))))))))))))))))))))))))))))))))))))))))))))))))))))))))))))))))))))))))))))))))))))))))))))))))))))))))))))))))))))))))))))))))))))))))))))))))))))))))))))))))))))))))))))))))))))))))))))))))))))))))))))))))))))))))))))))))))))))))))))))))))))))))))))))))))))))))))))))))))))))))))))))))))))))))))))))))))))))))))))))))))))))))))))))))))))))))))))))))))))))))))))))))))))))))))))))))))))))))))))))))))))))))))))))))))))))))))))))))))))))))))))))))))))))))))))))))))))))))))))))))))))))))))))))))))))))))))))))))))))))))))))))))))))))))))))))))))))))))))))))))))))))))))))))))))))))))))))))))))))))))))))))))))))))))))))))))))))))))))))))))
                                                                    (sub c1
                                                                    c0))
                                                                    then None
                                                                    else 
                                                                    let (
                                                                    r3, c3) =
                                                                    skip_sp
                                                                    r2
                                                                    (add c2
                                                                    (S (S O)))
                                                                    in
                                                                    (
                                                                    match 
                                                                    flow_node
                                                                    f r3 c3 with
                                                                    | Some p24 ->
                                                                    let (
                                                                    p25, c4) =
                                                                    p24
                                                                    in
                                                                    let (
                                                                    v, r4) =
                                                                    p25
                                                                    in
                                                                    let (
                                                                    r5, c5) =
                                                                    skip_sp
                                                                    r4 c4
                                                                    in
                                                                    (
                                                                    match r5 with
                                                                    | [] ->
                                                                    None
                                                                    | n4 :: r6 ->
                                                                    (match n4 with
                                                                    | N0 ->
                                                                    None
                                                                    | Npos p26 ->
                                                                    (match p26 with
                                                                    | XI p27 ->
                                                                    (match p27 with
                                                                    | XO p28 ->
                                                                    (match p28 with
                                                                    | XI p29 ->
                                                                    (match p29 with
                                                                    | XI p30 ->
                                                                    (match p30 with
                                                                    | XI p31 ->
                                                                    (match p31 with
                                                                    | XI p32 ->
                                                                    (match p32 with
                                                                    | XH ->
                                                                    Some
                                                                    (((build_map
                                                                    (rev
                                                                    (((unnums
                                                                    k),
                                                                    v) :: acc))),
                                                                    r6), (S
                                                                    c5))
                                                                    | _ ->
                                                                    None)
                                                                    | _ ->
                                                                    None)
                                                                    | _ ->
                                                                    None)
                                                                    | _ ->
                                                                    None)
                                                                    | _ ->
                                                                    None)
                                                                    | _ ->
                                                                    None)
                                                                    | XO p27 ->
                                                                    (match p27 with
                                                                    | XO p28 ->
                                                                    (match p28 with
                                                                    | XI p29 ->
                                                                    (match p29 with
                                                                    | XI p30 ->
                                                                    (match p30 with
                                                                    | XO p31 ->
                                                                    (match p31 with
                                                                    | XH ->
                                                                    let (
                                                                    r7, c7) =
                                                                    skip_sp
                                                                    r6 (S c5)
                                                                    in
                                                                    flow_map_items
                                                                    f r7 c7
                                                                    (((unnums
                                                                    k),
                                                                    v) :: acc)
                                                                    | _ ->
                                                                    None)
                                                                    | _ ->
                                                                    None)
                                                                    | _ ->
                                                                    None)
                                                                    | _ ->
                                                                    None)
                                                                    | _ ->
                                                                    None)
                                                                    | XH ->
                                                                    None)))
                                                                    | None ->
                                                                    None)
                                                                    | _ ->
                                                                    None)
                                                                    | _ ->
                                                                    None)
                                                                    | _ ->
                                                                    None)
                                                                    | _ ->
                                                                    None)
                                                                    | _ ->
                                                                    None)
                                                                    | _ ->
                                                                    None)))
                                                                    | _ ->
                                                                    None)
                                                                    | _ ->
                                                                    None)
                                                                 | _ -> None)
                                                              | _ -> None)
                                                           | _ -> None)
                                                        | _ -> None)))
                                               | None -> None))
                                         | _ ->
                                           let p8 = (l, c) in
                                           let explicit = false in
                                           let (l1, c0) = p8 in
                                           (match flow_scalar l1 c0 with
                                            | Some p9 ->
                                              let (p10, c1) = p9 in
                                              let (k, r0) = p10 in
                                              let (r1, c2) = skip_sp r0 c1 in
                                              (match r1 with
                                               | [] -> None
                                               | n2 :: l2 ->
                                                 (match n2 with
                                                  | N0 -> None
                                                  | Npos p11 ->
                                                    (match p11 with
                                                     | XO p12 ->
                                                       (match p12 with
                                                        | XI p13 ->
                                                          (match p13 with
                                                           | XO p14 ->
                                                             (match p14 with
                                                              | XI p15 ->
                                                                (match p15 with
                                                                 | XI p16 ->
                                                                   (match p16 with
                                                                    | XH ->
                                                                    (match l2 with
                                                                    | [] ->
                                                                    None
                                                                    | n3 :: r2 ->
                                                                    (match n3 with
                                                                    | N0 ->
                                                                    None
                                                                    | Npos p17 ->
                                                                    (match p17 with
                                                                    | XO p18 ->
                                                                    (match p18 with
                                                                    | XO p19 ->
                                                                    (match p19 with
                                                                    | XO p20 ->
                                                                    (match p20 with
                                                                    | XO p21 ->
                                                                    (match p21 with
                                                                    | XO p22 ->
                                                                    (match p22 with
                                                                    | XH ->
                                                                    if 
                                                                    (&&)
                                                                    (negb
                                                                    explicit)
                                                                    (Nat.ltb
                                                                    (S (S (S
                                                                    (S (S (S
                                                                    (S (S (S
                                                                    (S (S (S
                                                                    (S (S (S
                                                                    (S (S (S
                                                                    (S (S (S
                                                                    (S (S (S
                                                                    (S (S (S
                                                                    (S (S (S
                                                                    (S (S (S
                                                                    (S (S (S
                                                                    (S (S (S
                                                                    (S (S (S
                                                                    (S (S (S
                                                                    (S (S (S
                                                                    (S (S (S
                                                                    (S (S (S
                                                                    (S (S (S
                                                                    (S (S (S
                                                                    (S (S (S
                                                                    (S (S (S
                                                                    (S (S (S
                                                                    (S (S (S
                                                                    (S (S (S
                                                                    (S (S (S
                                                                    (S (S (S
                                                                    (S (S (S
                                                                    (S (S (S
                                                                    (S (S (S
                                                                    (S (S (S
                                                                    (S (S (S
                                                                    (S (S (S
                                                                    (S (S (S
                                                                    (S (S (S
                                                                    (S (S (S
                                                                    (S (S (S
                                                                    (S (S (S
                                                                    (S (S (S
                                                                    (S (S (S
                                                                    (S (S (S
                                                                    (S (S (S
                                                                    (S (S (S
                                                                    (S (S (S
                                                                    (S (S (S
                                                                    (S (S (S
                                                                    (S (S (S
                                                                    (S (S (S
                                                                    (S (S (S
                                                                    (S (S (S
                                                                    (S (S (S
                                                                    (S (S (S
                                                                    (S (S (S
                                                                    (S (S (S
                                                                    (S (S (S
                                                                    (S (S (S
                                                                    (S (S (S
                                                                    (S (S (S
                                                                    (S (S (S
                                                                    (S (S (S
                                                                    (S (S (S
                                                                    (S (S (S
                                                                    (S (S (S
                                                                    (S (S (S
                                                                    (S (S (S
                                                                    (S (S (S
                                                                    (S (S (S
                                                                    (S (S (S
                                                                    (S (S (S
                                                                    (S (S (S
                                                                    (S (S (S
                                                                    (S (S (S
                                                                    (S (S (S
                                                                    (S (S (S
                                                                    (S (S (S
                                                                    (S (S (S
                                                                    (S (S (S
                                                                    (S (S (S
                                                                    (S (S (S
                                                                    (S (S (S
                                                                    (S (S (S
                                                                    (S (S (S
                                                                    (S (S (S
                                                                    (S (S (S
                                                                    (S (S (S
                                                                    (S (S (S
                                                                    (S (S (S
                                                                    (S (S (S
                                                                    (S (S (S
                                                                    (S (S (S
                                                                    (S (S (S
                                                                    (S (S (S
                                                                    (S (S (S
                                                                    (S (S (S
                                                                    (S (S (S
                                                                    (S (S (S
                                                                    (S (S (S
                                                                    (S (S (S
                                                                    (S (S (S
                                                                    (S (S (S
                                                                    (S (S (S
                                                                    (S (S (S
                                                                    (S (S (S
                                                                    (S (S (S
                                                                    (S (S (S
                                                                    (S (S (S
                                                                    (S (S (S
                                                                    (S (S (S
                                                                    (S (S (S
                                                                    (S (S (S
                                                                    (S (S (S
                                                                    (S (S (S
                                                                    (S (S (S
                                                                    (S (S (S
                                                                    (S (S (S
                                                                    (S (S (S
                                                                    (S (S (S
                                                                    (S (S (S
                                                                    (S (S (S
                                                                    (S (S (S
                                                                    (S (S (S
                                                                    (S (S (S
                                                                    (S (S (S
                                                                    (S (S (S
                                                                    (S (S (S
                                                                    (S (S (S
                                                                    (S (S (S
                                                                    (S (S (S
                                                                    (S (S (S
                                                                    (S (S (S
                                                                    (S (S (S
                                                                    (S (S (S
                                                                    (S (S (S
                                                                    (S (S (S
                                                                    (S (S (S
                                                                    (S (S (S
                                                                    (S (S (S
                                                                    (S (S (S
                                                                    (S (S (S
                                                                    (S (S (S
                                                                    (S (S (S
                                                                    (S (S (S
                                                                    (S (S (S
                                                                    (S (S (S
                                                                    (S (S (S
                                                                    (S (S (S
                                                                    (S (S (S
                                                                    (S (S (S
                                                                    (S (S (S
                                                                    (S (S (S
                                                                    (S (S (S
                                                                    (S (S (S
                                                                    (S (S (S
                                                                    (S (S (S
                                                                    (S (S (S
                                                                    (S (S (S
                                                                    (S (S (S
                                                                    (S (S (S
                                                                    (S (S (S
                                                                    (S (S (S
                                                                    (S (S (S
                                                                    (S (S (S
                                                                    (S (S (S
                                                                    (S (S (S
                                                                    (S (S (S
                                                                    (S (S (S
                                                                    (S (S (S
                                                                    (S (S (S
                                                                    (S (S (S
                                                                    (S (S (S
                                                                    (S (S (S
                                                                    (S (S (S
                                                                    (S (S (S
                                                                    (S (S (S
                                                                    (S (S (S
                                                                    (S (S (S
                                                                    (S (S (S
                                                                    (S (S (S
                                                                    (S (S (S
                                                                    (S (S (S
                                                                    (S (S (S
                                                                    (S (S (S
                                                                    (S (S (S
                                                                    (S (S (S
                                                                    (S (S (S
                                                                    (S (S (S
                                                                    (S (S (S
                                                                    (S (S (S
                                                                    (S (S (S
                                                                    (S (S (S
                                                                    (S (S (S
                                                                    (S (S (S
                                                                    (S (S (S
                                                                    (S (S (S
                                                                    (S (S (S
                                                                    (S (S (S
                                                                    (S (S (S
                                                                    (S (S (S
                                                                    (S (S (S
                                                                    (S (S (S
                                                                    (S (S (S
                                                                    (S (S (S
                                                                    (S (S (S
                                                                    (S (S (S
                                                                    (S (S (S
                                                                    (S (S (S
                                                                    (S (S (S
                                                                    (S (S (S
                                                                    (S (S (S
                                                                    (S (S (S
                                                                    (S (S (S
                                                                    (S (S (S
                                                                    (S (S (S
                                                                    (S (S (S
                                                                    (S (S (S
                                                                    (S (S (S
                                                                    (S (S (S
                                                                    (S (S (S
                                                                    (S (S (S
                                                                    (S (S (S
                                                                    (S (S (S
                                                                    (S (S (S
                                                                    (S (S (S
                                                                    (S (S (S
                                                                    (S (S (S
                                                                    (S (S (S
                                                                    (S (S (S
                                                                    (S (S (S
                                                                    (S (S (S
                                                                    (S (S (S
                                                                    (S (S (S
                                                                    (S (S (S
                                                                    (S (S (S
                                                                    (S (S (S
                                                                    (S (S (S
                                                                    (S (S (S
                                                                    (S (S (S
                                                                    (S (S (S
                                                                    (S (S (S
                                                                    (S (S (S
                                                                    (S (S (S
                                                                    (S (S (S
                                                                    (S (S (S
                                                                    (S (S (S
                                                                    (S (S (S
                                                                    (S (S (S
                                                                    (S (S (S
                                                                    (S (S (S
                                                                    (S (S (S
                                                                    (S (S (S
                                                                    (S (S (S
                                                                    (S (S (S
                                                                    (S (S (S
                                                                    (S (S (S
                                                                    (S (S (S
                                                                    (S (S (S
                                                                    (S (S (S
                                                                    (S (S (S
                                                                    (S (S (S
                                                                    (S (S (S
                                                                    (S (S (S
                                                                    (S (S (S
                                                                    (S (S (S
                                                                    (S (S (S
                                                                    (S (S (S
                                                                    (S (S (S
                                                                    (S (S (S
                                                                    (S (S (S
                                                                    (S (S (S
                                                                    (S (S (S
                                                                    (S (S (S
                                                                    (S (S (S
                                                                    (S (S (S
                                                                    (S (S (S
                                                                    (S (S (S
                                                                    (S (S (S
                                                                    (S (S (S
                                                                    (S (S (S
                                                                    (S (S (S
                                                                    (S (S (S
                                                                    (S (S (S
                                                                    (S (S (S
                                                                    (S (S (S
                                                                    (S (S (S
                                                                    (S (S (S
                                                                    (S (S (S
                                                                    (S (S (S
                                                                    (S (S (S
                                                                    (S (S (S
                                                                    (S (S (S
                                                                    (S (S (S
                                                                    (S (S (S
                                                                    (S (S (S
                                                                    (S (S (S
                                                                    (S (S (S
                                                                    (S (S (S
                                                                    (S (S (S
                                                                    (S (S (S
                                                                    (S (S (S
                                                                    (S (S (S
                                                                    (S (S (S
                                                                    (S (S (S
                                                                    (S (S (S
                                                                    (S (S (S
                                                                    (S (S (S
                                                                    (S (S (S
                                                                    (S (S (S
                                                                    (S (S (S
                                                                    (S (S (S
                                                                    (S (S (S
                                                                    (S (S (S
                                                                    (S (S (S
                                                                    (S (S (S
                                                                    (S (S (S
                                                                    (S (S (S
                                                                    (S (S (S
                                                                    (S (S (S
                                                                    (S (S (S
                                                                    (S (S (S
                                                                    (S (S (S
                                                                    (S (S (S
                                                                    (S (S (S
                                                                    (S (S (S
                                                                    (S (S (S
                                                                    (S (S (S
                                                                    (S (S (S
                                                                    (S (S (S
                                                                    (S (S (S
                                                                    (S (S (S
                                                                    (S (S (S
                                                                    (S (S (S
                                                                    (S (S (S
                                                                    (S (S (S
                                                                    (S (S (S
                                                                    (S (S (S
                                                                    (S (S (S
                                                                    (S (S (S
                                                                    (S (S (S
                                                                    (S (S (S
                                                                    (S (S (S
                                                                    (S (S (S
                                                                    (S
                                                                    O))))))))))))))))))))))))))))))))))))))))))))))))))))))))))))))))))))))))))))))))))))))))))))))))))))))))))))))))))))))))))))))))))))))))))))))))))))))))))))))))))))))))))))))))))))))))))))))))))))))))))))))))))))))))))))))))))))))))))))))))))))))))))))))))))))))))))))))))))))))))))))))))))))))))))))))))))))))))))))))))))))))))))))))))))))))))))))))))))))))))))))))))))))))))))))))))))))))))))))))))))))))))))))))))))))))))))))))))))))))))))))))))))))))))))))))))))))))))))))))))))))))))))))))))))))))))))))))))))))))))))))))))))))))))))))))))))))))))))))))))))))))))))))))))))))))))))))))))))))))))))))))))))))))))))))))))))))))))))))))))))))))))))))))))))))))))))))))))))))))))))))))))))))))))))))))))))))))))))))))))))))))))))))))))))))))))))))))))))))))))))))))))))))))))))))))))))))))))))))))))))))))))))))))))))))))))))))))))))))))))))))))))))))))))))))))))))))))))))))))))))))))))))))))))))))))))))))))))))))))))))))))))))))))))))))))))))))))))))))))))))))))))))))))))))))))))))))))))))))))))))))))))))))))))))))))))
                                                                    (sub c1
                                                                    c0))
                                                                    then None
                                                                    else 
                                                                    let (
                                                                    r3, c3) =
                                                                    skip_sp
                                                                    r2
                                                                    (add c2
                                                                    (S (S O)))
                                                                    in
                                                                    (
                                                                    match 
                                                                    flow_node
                                                                    f r3 c3 with
                                                                    | Some p23 ->
                                                                    let (
                                                                    p24, c4) =
                                                                    p23
                                                                    in
                                                                    let (
                                                                    v, r4) =
                                                                    p24
                                                                    in
                                                                    let (
                                                                    r5, c5) =
                                                                    skip_sp
                                                                    r4 c4
                                                                    in
                                                                    (
                                                                    match r5 with
                                                                    | [] ->
                                                                    None
                                                                    | n4 :: r6 ->
                                                                    (match n4 with
                                                                    | N0 ->
                                                                    None
                                                                    | Npos p25 ->
                                                                    (match p25 with
                                                                    | XI p26 ->
                                                                    (match p26 with
                                                                    | XO p27 ->
                                                                    (match p27 with
                                                                    | XI p28 ->
                                                                    (match p28 with
                                                                    | XI p29 ->
                                                                    (match p29 with
                                                                    | XI p30 ->
                                                                    (match p30 with
                                                                    | XI p31 ->
                                                                    (match p31 with
                                                                    | XH ->
                                                                    Some
                                                                    (((build_map
                                                                    (rev
                                                                    (((unnums
                                                                    k),
                                                                    v) :: acc))),
                                                                    r6), (S
                                                                    c5))
                                                                    | _ ->
                                                                    None)
                                                                    | _ ->
                                                                    None)
                                                                    | _ ->
                                                                    None)
                                                                    | _ ->
                                                                    None)
                                                                    | _ ->
                                                                    None)
                                                                    | _ ->
                                                                    None)
                                                                    | XO p26 ->
                                                                    (match p26 with
                                                                    | XO p27 ->
                                                                    (match p27 with
                                                                    | XI p28 ->
                                                                    (match p28 with
                                                                    | XI p29 ->
                                                                    (match p29 with
                                                                    | XO p30 ->
                                                                    (match p30 with
                                                                    | XH ->
                                                                    let (
                                                                    r7, c7) =
                                                                    skip_sp
                                                                    r6 (S c5)
                                                                    in
                                                                    flow_map_items
                                                                    f r7 c7
                                                                    (((unnums
                                                                    k),
                                                                    v) :: acc)
                                                                    | _ ->
                                                                    None)
                                                                    | _ ->
                                                                    None)
                                                                    | _ ->
                                                                    None)
                                                                    | _ ->
                                                                    None)
                                                                    | _ ->
                                                                    None)
                                                                    | XH ->
                                                                    None)))
                                                                    | None ->
                                                                    None)
                                                                    | _ ->
                                                                    None)
                                                                    | _ ->
                                                                    None)
                                                                    | _ ->
                                                                    None)
                                                                    | _ ->
                                                                    None)
                                                                    | _ ->
                                                                    None)
                                                                    | _ ->
                                                                    None)))
                                                                    | _ ->
                                                                    None)
                                                                 | _ -> None)
                                                              | _ -> None)
                                                           | _ -> None)
                                                        | _ -> None)
                                                     | _ -> None)))
                                            | None -> None))
                                      | _ ->
                                        let p7 = (l, c) in
                                        let explicit = false in
                                        let (l1, c0) = p7 in
                                        (match flow_scalar l1 c0 with
                                         | Some p8 ->
                                           let (p9, c1) = p8 in
                                           let (k, r0) = p9 in
                                           let (r1, c2) = skip_sp r0 c1 in
                                           (match r1 with
                                            | [] -> None
                                            | n2 :: l2 ->
                                              (match n2 with
                                               | N0 -> None
                                               | Npos p10 ->
                                                 (match p10 with
                                                  | XO p11 ->
                                                    (match p11 with
                                                     | XI p12 ->
                                                       (match p12 with
                                                        | XO p13 ->
                                                          (match p13 with
                                                           | XI p14 ->
                                                             (match p14 with
                                                              | XI p15 ->
                                                                (match p15 with
                                                                 | XH ->
                                                                   (match l2 with
                                                                    | [] ->
                                                                    None
                                                                    | n3 :: r2 ->
                                                                    (match n3 with
                                                                    | N0 ->
                                                                    None
                                                                    | Npos p16 ->
                                                                    (match p16 with
                                                                    | XO p17 ->
                                                                    (match p17 with
                                                                    | XO p18 ->
                                                                    (match p18 with
                                                                    | XO p19 ->
                                                                    (match p19 with
                                                                    | XO p20 ->
                                                                    (match p20 with
                                                                    | XO p21 ->
                                                                    (match p21 with
                                                                    | XH ->
                                                                    if 
                                                                    (&&)
                                                                    (negb
                                                                    explicit)
                                                                    (Nat.ltb
                                                                    (S (S (S
                                                                    (S (S (S
                                                                    (S (S (S
                                                                    (S (S (S
                                                                    (S (S (S
                                                                    (S (S (S
                                                                    (S (S (S
                                                                    (S (S (S
                                                                    (S (S (S
                                                                    (S (S (S
                                                                    (S (S (S
                                                                    (S (S (S
                                                                    (S (S (S
                                                                    (S (S (S
                                                                    (S (S (S
                                                                    (S (S (S
                                                                    (S (S (S
                                                                    (S (S (S
                                                                    (S (S (S
                                                                    (S (S (S
                                                                    (S (S (S
                                                                    (S (S (S
                                                                    (S (S (S
                                                                    (S (S (S
                                                                    (S (S (S
                                                                    (S (S (S
                                                                    (S (S (S
                                                                    (S (S (S
                                                                    (S (S (S
                                                                    (S (S (S
                                                                    (S (S (S
                                                                    (S (S (S
                                                                    (S (S (S
                                                                    (S (S (S
                                                                    (S (S (S
                                                                    (S (S (S
                                                                    (S (S (S
                                                                    (S (S (S
                                                                    (S (S (S
                                                                    (S (S (S
                                                                    (S (S (S
                                                                    (S (S (S
                                                                    (S (S (S
                                                                    (S (S (S
                                                                    (S (S (S
                                                                    (S (S (S
                                                                    (S (S (S
                                                                    (S (S (S
                                                                    (S (S (S
                                                                    (S (S (S
                                                                    (S (S (S
                                                                    (S (S (S
                                                                    (S (S (S
                                                                    (S (S (S
                                                                    (S (S (S
                                                                    (S (S (S
                                                                    (S (S (S
                                                                    (S (S (S
                                                                    (S (S (S
                                                                    (S (S (S
                                                                    (S (S (S
                                                                    (S (S (S
                                                                    (S (S (S
                                                                    (S (S (S
                                                                    (S (S (S
                                                                    (S (S (S
                                                                    (S (S (S
                                                                    (S (S (S
                                                                    (S (S (S
                                                                    (S (S (S
                                                                    (S (S (S
                                                                    (S (S (S
                                                                    (S (S (S
                                                                    (S (S (S
                                                                    (S (S (S
                                                                    (S (S (S
                                                                    (S (S (S
                                                                    (S (S (S
                                                                    (S (S (S
                                                                    (S (S (S
                                                                    (S (S (S
                                                                    (S (S (S
                                                                    (S (S (S
                                                                    (S (S (S
                                                                    (S (S (S
                                                                    (S (S (S
                                                                    (S (S (S
                                                                    (S (S (S
                                                                    (S (S (S
                                                                    (S (S (S
                                                                    (S (S (S
                                                                    (S (S (S
                                                                    (S (S (S
                                                                    (S (S (S
                                                                    (S (S (S
                                                                    (S (S (S
                                                                    (S (S (S
                                                                    (S (S (S
                                                                    (S (S (S
                                                                    (S (S (S
                                                                    (S (S (S
                                                                    (S (S (S
                                                                    (S (S (S
                                                                    (S (S (S
                                                                    (S (S (S
                                                                    (S (S (S
                                                                    (S (S (S
                                                                    (S (S (S
                                                                    (S (S (S
                                                                    (S (S (S
                                                                    (S (S (S
                                                                    (S (S (S
                                                                    (S (S (S
                                                                    (S (S (S
                                                                    (S (S (S
                                                                    (S (S (S
                                                                    (S (S (S
                                                                    (S (S (S
                                                                    (S (S (S
                                                                    (S (S (S
                                                                    (S (S (S
                                                                    (S (S (S
                                                                    (S (S (S
                                                                    (S (S (S
                                                                    (S (S (S
                                                                    (S (S (S
                                                                    (S (S (S
                                                                    (S (S (S
                                                                    (S (S (S
                                                                    (S (S (S
                                                                    (S (S (S
                                                                    (S (S (S
                                                                    (S (S (S
                                                                    (S (S (S
                                                                    (S (S (S
                                                                    (S (S (S
                                                                    (S (S (S
                                                                    (S (S (S
                                                                    (S (S (S
                                                                    (S (S (S
                                                                    (S (S (S
                                                                    (S (S (S
                                                                    (S (S (S
                                                                    (S (S (S
                                                                    (S (S (S
                                                                    (S (S (S
                                                                    (S (S (S
                                                                    (S (S (S
                                                                    (S (S (S
                                                                    (S (S (S
                                                                    (S (S (S
                                                                    (S (S (S
                                                                    (S (S (S
                                                                    (S (S (S
                                                                    (S (S (S
                                                                    (S (S (S
                                                                    (S (S (S
                                                                    (S (S (S
                                                                    (S (S (S
                                                                    (S (S (S
                                                                    (S (S (S
                                                                    (S (S (S
                                                                    (S (S (S
                                                                    (S (S (S
                                                                    (S (S (S
                                                                    (S (S (S
                                                                    (S (S (S
                                                                    (S (S (S
                                                                    (S (S (S
                                                                    (S (S (S
                                                                    (S (S (S
                                                                    (S (S (S
                                                                    (S (S (S
                                                                    (S (S (S
                                                                    (S (S (S
                                                                    (S (S (S
                                                                    (S (S (S
                                                                    (S (S (S
                                                                    (S (S (S
                                                                    (S (S (S
                                                                    (S (S (S
                                                                    (S (S (S
                                                                    (S (S (S
                                                                    (S (S (S
                                                                    (S (S (S
                                                                    (S (S (S
                                                                    (S (S (S
                                                                    (S (S (S
                                                                    (S (S (S
                                                                    (S (S (S
                                                                    (S (S (S
                                                                    (S (S (S
                                                                    (S (S (S
                                                                    (S (S (S
                                                                    (S (S (S
                                                                    (S (S (S
                                                                    (S (S (S
                                                                    (S (S (S
                                                                    (S (S (S
                                                                    (S (S (S
                                                                    (S (S (S
                                                                    (S (S (S
                                                                    (S (S (S
                                                                    (S (S (S
                                                                    (S (S (S
                                                                    (S (S (S
                                                                    (S (S (S
                                                                    (S (S (S
                                                                    (S (S (S
                                                                    (S (S (S
                                                                    (S (S (S
                                                                    (S (S (S
                                                                    (S (S (S
                                                                    (S (S (S
                                                                    (S (S (S
                                                                    (S (S (S
                                                                    (S (S (S
                                                                    (S (S (S
                                                                    (S (S (S
                                                                    (S (S (S
                                                                    (S (S (S
                                                                    (S (S (S
                                                                    (S (S (S
                                                                    (S (S (S
                                                                    (S (S (S
                                                                    (S (S (S
                                                                    (S (S (S
                                                                    (S (S (S
                                                                    (S (S (S
                                                                    (S (S (S
                                                                    (S (S (S
                                                                    (S (S (S
                                                                    (S (S (S
                                                                    (S (S (S
                                                                    (S (S (S
                                                                    (S (S (S
                                                                    (S (S (S
                                                                    (S (S (S
                                                                    (S (S (S
                                                                    (S (S (S
                                                                    (S (S (S
                                                                    (S (S (S
                                                                    (S (S (S
                                                                    (S (S (S
                                                                    (S (S (S
                                                                    (S (S (S
                                                                    (S (S (S
                                                                    (S (S (S
                                                                    (S (S (S
                                                                    (S (S (S
                                                                    (S (S (S
                                                                    (S (S (S
                                                                    (S (S (S
                                                                    (S (S (S
                                                                    (S (S (S
                                                                    (S (S (S
                                                                    (S (S (S
                                                                    (S (S (S
                                                                    (S (S (S
                                                                    (S (S (S
                                                                    (S (S (S
                                                                    (S (S (S
                                                                    (S (S (S
                                                                    (S (S (S
                                                                    (S (S (S
                                                                    (S (S (S
                                                                    (S (S (S
                                                                    (S (S (S
                                                                    (S (S (S
                                                                    (S (S (S
                                                                    (S (S (S
                                                                    (S (S (S
                                                                    (S (S (S
                                                                    (S (S (S
                                                                    (S (S (S
                                                                    (S (S (S
                                                                    (S (S (S
                                                                    (S (S (S
                                                                    (S (S (S
                                                                    (S (S (S
                                                                    (S (S (S
                                                                    (S (S (S
                                                                    (S (S (S
                                                                    (S (S (S
                                                                    (S (S (S
                                                                    (S (S (S
                                                                    (S (S (S
                                                                    (S (S (S
                                                                    (S (S (S
                                                                    (S (S (S
                                                                    (S (S (S
                                                                    (S (S (S
                                                                    (S (S (S
                                                                    (S (S (S
                                                                    (S (S (S
                                                                    (S (S (S
                                                                    (S (S (S
                                                                    (S (S (S
                                                                    (S (S (S
                                                                    (S (S (S
                                                                    (S (S (S
                                                                    (S (S (S
                                                                    (S (S (S
                                                                    (S (S (S
                                                                    (S (S (S
                                                                    (S (S (S
                                                                    (S (S (S
                                                                    (S (S (S
                                                                    (S (S (S
                                                                    (S (S (S
                                                                    (S (S (S
                                                                    (S (S (S
                                                                    (S (S (S
                                                                    (S (S (S
                                                                    (S (S (S
                                                                    (S (S (S
                                                                    (S (S (S
                                                                    (S (S (S
                                                                    (S (S (S
                                                                    (S (S (S
                                                                    (S (S (S
                                                                    (S (S (S
                                                                    (S (S (S
                                                                    (S (S (S
                                                                    (S (S (S
                                                                    (S (S (S
                                                                    (S (S (S
                                                                    (S (S (S
                                                                    (S (S (S
                                                                    (S (S (S
                                                                    (S (S (S
                                                                    (S (S (S
                                                                    (S (S (S
                                                                    (S (S (S
                                                                    (S (S (S
                                                                    (S (S (S
                                                                    (S (S (S
                                                                    (S (S (S
                                                                    (S (S (S
                                                                    (S (S (S
                                                                    (S (S (S
                                                                    (S
                                                                    O))))))))))))))))))))))))))))))))))))))))))))))))))))))))))))))))))))))))))))))))))))))))))))))))))))))))))))))))))))))))))))))))))))))))))))))))))))))))))))))))))))))))))))))))))))))))))))))))))))))))))))))))))))))))))))))))))))))))))))))))))))))))))))))))))))))))))))))))))))))))))))))))))))))))))))))))))))))))))))))))))))))))))))))))))))))))))))))))))))))))))))))))))))))))))))))))))))))))))))))))))))))))))))))))))))))))))))))))))))))))))))))))))))))))))))))))))))))))))))))))))))))))))))))))))))))))))))))))))))))))))))))))))))))))))))))))))))))))))))))))))))))))))))))))))))))))))))))))))))))))))))))))))))))))))))))))))))))))))))))))))))))))))))))))))))))))))))))))))))))))))))))))))))))))))))))))))))))))))))))))))))))))))))))))))))))))))))))))))))))))))))))))))))))))))))))))))))))))))))))))))))))))))))))))))))))))))))))))))))))))))))))))))))))))))))))))))))))))))))))))))))))))))))))))))))))))))))))))))))))))))))))))))))))))))))))))))))))))))))))))))))))))))))))))))))))))))))))))))))))))))))))))))))))))))))))))
                                                                    (sub c1
                                                                    c0))
                                                                    then None
                                                                    else 
                                                                    let (
                                                                    r3, c3) =
                                                                    skip_sp
                                                                    r2
                                                                    (add c2
                                                                    (S (S O)))
                                                                    in
                                                                    (
                                                                    match 
                                                                    flow_node
                                                                    f r3 c3 with
                                                                    | Some p22 ->
                                                                    let (
                                                                    p23, c4) =
                                                                    p22
                                                                    in
                                                                    let (
                                                                    v, r4) =
                                                                    p23
                                                                    in
                                                                    let (
                                                                    r5, c5) =
                                                                    skip_sp
                                                                    r4 c4
                                                                    in
                                                                    (
                                                                    match r5 with
                                                                    | [] ->
                                                                    None
                                                                    | n4 :: r6 ->
                                                                    (match n4 with
                                                                    | N0 ->
                                                                    None
                                                                    | Npos p24 ->
                                                                    (match p24 with
                                                                    | XI p25 ->
                                                                    (match p25 with
                                                                    | XO p26 ->
                                                                    (match p26 with
                                                                    | XI p27 ->
                                                                    (match p27 with
                                                                    | XI p28 ->
                                                                    (match p28 with
                                                                    | XI p29 ->
                                                                    (match p29 with
                                                                    | XI p30 ->
                                                                    (match p30 with
                                                                    | XH ->
                                                                    Some
                                                                    (((build_map
                                                                    (rev
                                                                    (((unnums
                                                                    k),
                                                                    v) :: acc))),
                                                                    r6), (S
                                                                    c5))
                                                                    | _ ->
                                                                    None)
                                                                    | _ ->
                                                                    None)
                                                                    | _ ->
                                                                    None)
                                                                    | _ ->
                                                                    None)
                                                                    | _ ->
                                                                    None)
                                                                    | _ ->
                                                                    None)
                                                                    | XO p25 ->
                                                                    (match p25 with
                                                                    | XO p26 ->
                                                                    (match p26 with
                                                                    | XI p27 ->
                                                                    (match p27 with
                                                                    | XI p28 ->
                                                                    (match p28 with
                                                                    | XO p29 ->
                                                                    (match p29 with
                                                                    | XH ->
                                                                    let (
                                                                    r7, c7) =
                                                                    skip_sp
                                                                    r6 (S c5)
                                                                    in
                                                                    flow_map_items
                                                                    f r7 c7
                                                                    (((unnums
                                                                    k),
                                                                    v) :: acc)
                                                                    | _ ->
                                                                    None)
                                                                    | _ ->
                                                                    None)
                                                                    | _ ->
                                                                    None)
                                                                    | _ ->
                                                                    None)
                                                                    | _ ->
                                                                    None)
                                                                    | XH ->
                                                                    None)))
                                                                    | None ->
                                                                    None)
                                                                    | _ ->
                                                                    None)
                                                                    | _ ->
                                                                    None)
                                                                    | _ ->
                                                                    None)
                                                                    | _ ->
                                                                    None)
                                                                    | _ ->
                                                                    None)
                                                                    | _ ->
                                                                    None)))
                                                                 | _ -> None)
                                                              | _ -> None)
                                                           | _ -> None)
                                                        | _ -> None)
                                                     | _ -> None)
                                                  | _ -> None)))
                                         | None -> None))
                                   | _ ->
                                     let p6 = (l, c) in
                                     let explicit = false in
                                     let (l1, c0) = p6 in
                                     (match flow_scalar l1 c0 with
                                      | Some p7 ->
                                        let (p8, c1) = p7 in
                                        let (k, r0) = p8 in
                                        let (r1, c2) = skip_sp r0 c1 in
                                        (match r1 with
                                         | [] -> None
                                         | n2 :: l2 ->
                                           (match n2 with
                                            | N0 -> None
                                            | Npos p9 ->
                                              (match p9 with
                                               | XO p10 ->
                                                 (match p10 with
                                                  | XI p11 ->
                                                    (match p11 with
                                                     | XO p12 ->
                                                       (match p12 with
                                                        | XI p13 ->
                                                          (match p13 with
                                                           | XI p14 ->
                                                             (match p14 with
                                                              | XH ->
                                                                (match l2 with
                                                                 | [] -> None
                                                                 | n3 :: r2 ->
                                                                   (match n3 with
                                                                    | N0 ->
                                                                    None
                                                                    | Npos p15 ->
                                                                    (match p15 with
                                                                    | XO p16 ->
                                                                    (match p16 with
                                                                    | XO p17 ->
                                                                    (match p17 with
                                                                    | XO p18 ->
                                                                    (match p18 with
                                                                    | XO p19 ->
                                                                    (match p19 with
                                                                    | XO p20 ->
                                                                    (match p20 with
                                                                    | XH ->
                                                                    if 
                                                                    (&&)
                                                                    (negb
                                                                    explicit)
                                                                    (Nat.ltb
                                                                    (S (S (S
                                                                    (S (S (S
                                                                    (S (S (S
                                                                    (S (S (S
                                                                    (S (S (S
                                                                    (S (S (S
                                                                    (S (S (S
                                                                    (S (S (S
                                                                    (S (S (S
                                                                    (S (S (S
                                                                    (S (S (S
                                                                    (S (S (S
                                                                    (S (S (S
                                                                    (S (S (S
                                                                    (S (S (S
                                                                    (S (S (S
                                                                    (S (S (S
                                                                    (S (S (S
                                                                    (S (S (S
                                                                    (S (S (S
                                                                    (S (S (S
                                                                    (S (S (S
                                                                    (S (S (S
                                                                    (S (S (S
                                                                    (S (S (S
                                                                    (S (S (S
                                                                    (S (S (S
                                                                    (S (S (S
                                                                    (S (S (S
                                                                    (S (S (S
                                                                    (S (S (S
                                                                    (S (S (S
                                                                    (S (S (S
                                                                    (S (S (S
                                                                    (S (S (S
                                                                    (S (S (S
                                                                    (S (S (S
                                                                    (S (S (S
                                                                    (S (S (S
                                                                    (S (S (S
                                                                    (S (S (S
                                                                    (S (S (S
                                                                    (S (S (S
                                                                    (S (S (S
                                                                    (S (S (S
                                                                    (S (S (S
                                                                    (S (S (S
                                                                    (S (S (S
                                                                    (S (S (S
                                                                    (S (S (S
                                                                    (S (S (S
                                                                    (S (S (S
                                                                    (S (S (S
                                                                    (S (S (S
                                                                    (S (S (S
                                                                    (S (S (S
                                                                    (S (S (S
                                                                    (S (S (S
                                                                    (S (S (S
                                                                    (S (S (S
                                                                    (S (S (S
                                                                    (S (S (S
                                                                    (S (S (S
                                                                    (S (S (S
                                                                    (S (S (S
                                                                    (S (S (S
                                                                    (S (S (S
                                                                    (S (S (S
                                                                    (S (S (S
                                                                    (S (S (S
                                                                    (S (S (S
                                                                    (S (S (S
                                                                    (S (S (S
                                                                    (S (S (S
                                                                    (S (S (S
                                                                    (S (S (S
                                                                    (S (S (S
                                                                    (S (S (S
                                                                    (S (S (S
                                                                    (S (S (S
                                                                    (S (S (S
                                                                    (S (S (S
                                                                    (S (S (S
                                                                    (S (S (S
                                                                    (S (S (S
                                                                    (S (S (S
                                                                    (S (S (S
                                                                    (S (S (S
                                                                    (S (S (S
                                                                    (S (S (S
                                                                    (S (S (S
                                                                    (S (S (S
                                                                    (S (S (S
                                                                    (S (S (S
                                                                    (S (S (S
                                                                    (S (S (S
                                                                    (S (S (S
                                                                    (S (S (S
                                                                    (S (S (S
                                                                    (S (S (S
                                                                    (S (S (S
                                                                    (S (S (S
                                                                    (S (S (S
                                                                    (S (S (S
                                                                    (S (S (S
                                                                    (S (S (S
                                                                    (S (S (S
                                                                    (S (S (S
                                                                    (S (S (S
                                                                    (S (S (S
                                                                    (S (S (S
                                                                    (S (S (S
                                                                    (S (S (S
                                                                    (S (S (S
                                                                    (S (S (S
                                                                    (S (S (S
                                                                    (S (S (S
                                                                    (S (S (S
                                                                    (S (S (S
                                                                    (S (S (S
                                                                    (S (S (S
                                                                    (S (S (S
                                                                    (S (S (S
                                                                    (S (S (S
                                                                    (S (S (S
                                                                    (S (S (S
                                                                    (S (S (S
                                                                    (S (S (S
                                                                    (S (S (S
                                                                    (S (S (S
                                                                    (S (S (S
                                                                    (S (S (S
                                                                    (S (S (S
                                                                    (S (S (S
                                                                    (S (S (S
                                                                    (S (S (S
                                                                    (S (S (S
                                                                    (S (S (S
                                                                    (S (S (S
                                                                    (S (S (S
                                                                    (S (S (S
                                                                    (S (S (S
                                                                    (S (S (S
                                                                    (S (S (S
                                                                    (S (S (S
                                                                    (S (S (S
                                                                    (S (S (S
                                                                    (S (S (S
                                                                    (S (S (S
                                                                    (S (S (S
                                                                    (S (S (S
                                                                    (S (S (S
                                                                    (S (S (S
                                                                    (S (S (S
                                                                    (S (S (S
                                                                    (S (S (S
                                                                    (S (S (S
                                                                    (S (S (S
                                                                    (S (S (S
                                                                    (S (S (S
                                                                    (S (S (S
                                                                    (S (S (S
                                                                    (S (S (S
                                                                    (S (S (S
                                                                    (S (S (S
                                                                    (S (S (S
                                                                    (S (S (S
                                                                    (S (S (S
                                                                    (S (S (S
                                                                    (S (S (S
                                                                    (S (S (S
                                                                    (S (S (S
                                                                    (S (S (S
                                                                    (S (S (S
                                                                    (S (S (S
                                                                    (S (S (S
                                                                    (S (S (S
                                                                    (S (S (S
                                                                    (S (S (S
                                                                    (S (S (S
                                                                    (S (S (S
                                                                    (S (S (S
                                                                    (S (S (S
                                                                    (S (S (S
                                                                    (S (S (S
                                                                    (S (S (S
                                                                    (S (S (S
                                                                    (S (S (S
                                                                    (S (S (S
                                                                    (S (S (S
                                                                    (S (S (S
                                                                    (S (S (S
                                                                    (S (S (S
                                                                    (S (S (S
                                                                    (S (S (S
                                                                    (S (S (S
                                                                    (S (S (S
                                                                    (S (S (S
                                                                    (S (S (S
                                                                    (S (S (S
                                                                    (S (S (S
                                                                    (S (S (S
                                                                    (S (S (S
                                                                    (S (S (S
                                                                    (S (S (S
                                                                    (S (S (S
                                                                    (S (S (S
                                                                    (S (S (S
                                                                    (S (S (S
                                                                    (S (S (S
                                                                    (S (S (S
                                                                    (S (S (S
                                                                    (S (S (S
                                                                    (S (S (S
                                                                    (S (S (S
                                                                    (S (S (S
                                                                    (S (S (S
                                                                    (S (S (S
                                                                    (S (S (S
                                                                    (S (S (S
                                                                    (S (S (S
                                                                    (S (S (S
                                                                    (S (S (S
                                                                    (S (S (S
                                                                    (S (S (S
                                                                    (S (S (S
                                                                    (S (S (S
                                                                    (S (S (S
                                                                    (S (S (S
                                                                    (S (S (S
                                                                    (S (S (S
                                                                    (S (S (S
                                                                    (S (S (S
                                                                    (S (S (S
                                                                    (S (S (S
                                                                    (S (S (S
                                                                    (S (S (S
                                                                    (S (S (S
                                                                    (S (S (S
                                                                    (S (S (S
                                                                    (S (S (S
                                                                    (S (S (S
                                                                    (S (S (S
                                                                    (S (S (S
                                                                    (S (S (S
                                                                    (S (S (S
                                                                    (S (S (S
                                                                    (S (S (S
                                                                    (S (S (S
                                                                    (S (S (S
                                                                    (S (S (S
                                                                    (S (S (S
                                                                    (S (S (S
                                                                    (S (S (S
                                                                    (S (S (S
                                                                    (S (S (S
                                                                    (S (S (S
                                                                    (S (S (S
                                                                    (S (S (S
                                                                    (S (S (S
                                                                    (S (S (S
                                                                    (S (S (S
                                                                    (S (S (S
                                                                    (S (S (S
                                                                    (S (S (S
                                                                    (S (S (S
                                                                    (S (S (S
                                                                    (S (S (S
                                                                    (S (S (S
                                                                    (S (S (S
                                                                    (S (S (S
                                                                    (S (S (S
                                                                    (S (S (S
                                                                    (S (S (S
                                                                    (S (S (S
                                                                    (S (S (S
                                                                    (S (S (S
                                                                    (S (S (S
                                                                    (S (S (S
                                                                    (S (S (S
                                                                    (S (S (S
                                                                    (S (S (S
                                                                    (S (S (S
                                                                    (S (S (S
                                                                    (S (S (S
                                                                    (S (S (S
                                                                    (S (S (S
                                                                    (S (S (S
                                                                    (S (S (S
                                                                    (S (S (S
                                                                    (S (S (S
                                                                    (S (S (S
                                                                    (S (S (S
                                                                    (S (S (S
                                                                    (S (S (S
                                                                    (S (S (S
                                                                    (S (S (S
                                                                    (S (S (S
                                                                    (S (S (S
                                                                    (S (S (S
                                                                    (S (S (S
                                                                    (S (S (S
                                                                    (S (S (S
                                                                    (S (S (S
                                                                    (S (S (S
                                                                    (S (S (S
                                                                    (S (S (S
                                                                    (S (S (S
                                                                    (S (S (S
                                                                    (S (S (S
                                                                    (S (S (S
                                                                    (S (S (S
                                                                    (S (S (S
                                                                    (S (S (S
                                                                    (S (S (S
                                                                    (S (S (S
                                                                    (S (S (S
                                                                    (S (S (S
                                                                    (S (S (S
                                                                    (S (S (S
                                                                    (S (S (S
                                                                    (S (S (S
                                                                    (S (S (S
                                                                    (S (S (S
                                                                    (S (S (S
                                                                    (S (S (S
                                                                    (S (S (S
                                                                    (S (S (S
                                                                    (S (S (S
                                                                    (S (S (S
                                                                    (S (S (S
                                                                    (S (S (S
                                                                    (S (S (S
                                                                    (S (S (S
                                                                    (S (S (S
                                                                    (S (S (S
                                                                    (S (S (S
                                                                    (S (S (S
                                                                    (S (S (S
                                                                    (S (S (S
                                                                    (S (S (S
                                                                    (S
                                                                    O))))))))))))))))))))))))))))))))))))))))))))))))))))))))))))))))))))))))))))))))))))))))))))))))))))))))))))))))))))))))))))))))))))))))))))))))))))))))))))))))))))))))))))))))))))))))))))))))))))))))))))))))))))))))))))))))))))))))))))))))))))))))))))))))))))))))))))))))))))))))))))))))))))))))))))))))))))))))))))))))))))))))))))))))))))))))))))))))))))))))))))))))))))))))))))))))))))))))))))))))))))))))))))))))))))))))))))))))))))))))))))))))))))))))))))))))))))))))))))))))))))))))))))))))))))))))))))))))))))))))))))))))))))))))))))))))))))))))))))))))))))))))))))))))))))))))))))))))))))))))))))))))))))))))))))))))))))))))))))))))))))))))))))))))))))))))))))))))))))))))))))))))))))))))))))))))))))))))))))))))))))))))))))))))))))))))))))))))))))))))))))))))))))))))))))))))))))))))))))))))))))))))))))))))))))))))))))))))))))))))))))))))))))))))))))))))))))))))))))))))))))))))))))))))))))))))))))))))))))))))))))))))))))))))))))))))))))))))))))))))))))))))))))))))))))))))))))))))))))))))))))))))))))))))))))))))
                                                                    (sub c1
                                                                    c0))
                                                                    then None
                                                                    else 
                                                                    let (
                                                                    r3, c3) =
                                                                    skip_sp
                                                                    r2
                                                                    (add c2
                                                                    (S (S O)))
                                                                    in
                                                                    (
                                                                    match 
                                                                    flow_node
                                                                    f r3 c3 with
                                                                    | Some p21 ->
                                                                    let (
                                                                    p22, c4) =
                                                                    p21
                                                                    in
                                                                    let (
                                                                    v, r4) =
                                                                    p22
                                                                    in
                                                                    let (
                                                                    r5, c5) =
                                                                    skip_sp
                                                                    r4 c4
                                                                    in
                                                                    (
                                                                    match r5 with
                                                                    | [] ->
                                                                    None
                                                                    | n4 :: r6 ->
                                                                    (match n4 with
                                                                    | N0 ->
                                                                    None
                                                                    | Npos p23 ->
                                                                    (match p23 with
                                                                    | XI p24 ->
                                                                    (match p24 with
                                                                    | XO p25 ->
                                                                    (match p25 with
                                                                    | XI p26 ->
                                                                    (match p26 with
                                                                    | XI p27 ->
                                                                    (match p27 with
                                                                    | XI p28 ->
                                                                    (match p28 with
                                                                    | XI p29 ->
                                                                    (match p29 with
                                                                    | XH ->
                                                                    Some
                                                                    (((build_map
                                                                    (rev
                                                                    (((unnums
                                                                    k),
                                                                    v) :: acc))),
                                                                    r6), (S
                                                                    c5))
                                                                    | _ ->
                                                                    None)
                                                                    | _ ->
                                                                    None)
                                                                    | _ ->
                                                                    None)
                                                                    | _ ->
                                                                    None)
                                                                    | _ ->
                                                                    None)
                                                                    | _ ->
                                                                    None)
                                                                    | XO p24 ->
                                                                    (match p24 with
                                                                    | XO p25 ->
                                                                    (match p25 with
                                                                    | XI p26 ->
                                                                    (match p26 with
                                                                    | XI p27 ->
                                                                    (match p27 with
                                                                    | XO p28 ->
                                                                    (match p28 with
                                                                    | XH ->
                                                                    let (
                                                                    r7, c7) =
                                                                    skip_sp
                                                                    r6 (S c5)
                                                                    in
                                                                    flow_map_items
                                                                    f r7 c7
                                                                    (((unnums
                                                                    k),
                                                                    v) :: acc)
                                                                    | _ ->
                                                                    None)
                                                                    | _ ->
                                                                    None)
                                                                    | _ ->
                                                                    None)
                                                                    | _ ->
                                                                    None)
                                                                    | _ ->
                                                                    None)
                                                                    | XH ->
                                                                    None)))
                                                                    | None ->
                                                                    None)
                                                                    | _ ->
                                                                    None)
                                                                    | _ ->
                                                                    None)
                                                                    | _ ->
                                                                    None)
                                                                    | _ ->
                                                                    None)
                                                                    | _ ->
                                                                    None)
                                                                    | _ ->
                                                                    None)))
                                                              | _ -> None)
                                                           | _ -> None)
                                                        | _ -> None)
                                                     | _ -> None)
                                                  | _ -> None)
                                               | _ -> None)))
                                      | None -> None))))
                          | _ ->
                            let p5 = (l, c) in
                            let explicit = false in
                            let (l1, c0) = p5 in
                            (match flow_scalar l1 c0 with
                             | Some p6 ->
                               let (p7, c1) = p6 in
                               let (k, r) = p7 in
                               let (r1, c2) = skip_sp r c1 in
                               (match r1 with
                                | [] -> None
                                | n1 :: l2 ->
                                  (match n1 with
                                   | N0 -> None
                                   | Npos p8 ->
                                     (match p8 with
                                      | XO p9 ->
                                        (match p9 with
                                         | XI p10 ->
                                           (match p10 with
                                            | XO p11 ->
                                              (match p11 with
                                               | XI p12 ->
                                                 (match p12 with
                                                  | XI p13 ->
                                                    (match p13 with
                                                     | XH ->
                                                       (match l2 with
                                                        | [] -> None
                                                        | n2 :: r2 ->
                                                          (match n2 with
                                                           | N0 -> None
                                                           | Npos p14 ->
                                                             (match p14 with
                                                              | XO p15 ->
                                                                (match p15 with
                                                                 | XO p16 ->
                                                                   (match p16 with
                                                                    | XO p17 ->
                                                                    (match p17 with
                                                                    | XO p18 ->
                                                                    (match p18 with
                                                                    | XO p19 ->
                                                                    (match p19 with
                                                                    | XH ->
                                                                    if 
                                                                    (&&)
                                                                    (negb
                                                                    explicit)
                                                                    (Nat.ltb
                                                                    (S (S (S
                                                                    (S (S (S
                                                                    (S (S (S
                                                                    (S (S (S
                                                                    (S (S (S
                                                                    (S (S (S
                                                                    (S (S (S
                                                                    (S (S (S
                                                                    (S (S (S
                                                                    (S (S (S
                                                                    (S (S (S
                                                                    (S (S (S
                                                                    (S (S (S
                                                                    (S (S (S
                                                                    (S (S (S
                                                                    (S (S (S
                                                                    (S (S (S
                                                                    (S (S (S
                                                                    (S (S (S
                                                                    (S (S (S
                                                                    (S (S (S
                                                                    (S (S (S
                                                                    (S (S (S
                                                                    (S (S (S
                                                                    (S (S (S
                                                                    (S (S (S
                                                                    (S (S (S
                                                                    (S (S (S
                                                                    (S (S (S
                                                                    (S (S (S
                                                                    (S (S (S
                                                                    (S (S (S
                                                                    (S (S (S
                                                                    (S (S (S
                                                                    (S (S (S
                                                                    (S (S (S
                                                                    (S (S (S
                                                                    (S (S (S
                                                                    (S (S (S
                                                                    (S (S (S
                                                                    (S (S (S
                                                                    (S (S (S
                                                                    (S (S (S
                                                                    (S (S (S
                                                                    (S (S (S
                                                                    (S (S (S
                                                                    (S (S (S
                                                                    (S (S (S
                                                                    (S (S (S
                                                                    (S (S (S
                                                                    (S (S (S
                                                                    (S (S (S
                                                                    (S (S (S
                                                                    (S (S (S
                                                                    (S (S (S
                                                                    (S (S (S
                                                                    (S (S (S
                                                                    (S (S (S
                                                                    (S (S (S
                                                                    (S (S (S
                                                                    (S (S (S
                                                                    (S (S (S
                                                                    (S (S (S
                                                                    (S (S (S
                                                                    (S (S (S
                                                                    (S (S (S
                                                                    (S (S (S
                                                                    (S (S (S
                                                                    (S (S (S
                                                                    (S (S (S
                                                                    (S (S (S
                                                                    (S (S (S
                                                                    (S (S (S
                                                                    (S (S (S
                                                                    (S (S (S
                                                                    (S (S (S
                                                                    (S (S (S
                                                                    (S (S (S
                                                                    (S (S (S
                                                                    (S (S (S
                                                                    (S (S (S
                                                                    (S (S (S
                                                                    (S (S (S
                                                                    (S (S (S
                                                                    (S (S (S
                                                                    (S (S (S
                                                                    (S (S (S
                                                                    (S (S (S
                                                                    (S (S (S
                                                                    (S (S (S
                                                                    (S (S (S
                                                                    (S (S (S
                                                                    (S (S (S
                                                                    (S (S (S
                                                                    (S (S (S
                                                                    (S (S (S
                                                                    (S (S (S
                                                                    (S (S (S
                                                                    (S (S (S
                                                                    (S (S (S
                                                                    (S (S (S
                                                                    (S (S (S
                                                                    (S (S (S
                                                                    (S (S (S
                                                                    (S (S (S
                                                                    (S (S (S
                                                                    (S (S (S
                                                                    (S (S (S
                                                                    (S (S (S
                                                                    (S (S (S
                                                                    (S (S (S
                                                                    (S (S (S
                                                                    (S (S (S
                                                                    (S (S (S
                                                                    (S (S (S
                                                                    (S (S (S
                                                                    (S (S (S
                                                                    (S (S (S
                                                                    (S (S (S
                                                                    (S (S (S
                                                                    (S (S (S
                                                                    (S (S (S
                                                                    (S (S (S
                                                                    (S (S (S
                                                                    (S (S (S
                                                                    (S (S (S
                                                                    (S (S (S
                                                                    (S (S (S
                                                                    (S (S (S
                                                                    (S (S (S
                                                                    (S (S (S
                                                                    (S (S (S
                                                                    (S (S (S
                                                                    (S (S (S
                                                                    (S (S (S
                                                                    (S (S (S
                                                                    (S (S (S
                                                                    (S (S (S
                                                                    (S (S (S
                                                                    (S (S (S
                                                                    (S (S (S
                                                                    (S (S (S
                                                                    (S (S (S
                                                                    (S (S (S
                                                                    (S (S (S
                                                                    (S (S (S
                                                                    (S (S (S
                                                                    (S (S (S
                                                                    (S (S (S
                                                                    (S (S (S
                                                                    (S (S (S
                                                                    (S (S (S
                                                                    (S (S (S
                                                                    (S (S (S
                                                                    (S (S (S
                                                                    (S (S (S
                                                                    (S (S (S
                                                                    (S (S (S
                                                                    (S (S (S
                                                                    (S (S (S
                                                                    (S (S (S
                                                                    (S (S (S
                                                                    (S (S (S
                                                                    (S (S (S
                                                                    (S (S (S
                                                                    (S (S (S
                                                                    (S (S (S
                                                                    (S (S (S
                                                                    (S (S (S
                                                                    (S (S (S
                                                                    (S (S (S
                                                                    (S (S (S
                                                                    (S (S (S
                                                                    (S (S (S
                                                                    (S (S (S
                                                                    (S (S (S
                                                                    (S (S (S
                                                                    (S (S (S
                                                                    (S (S (S
                                                                    (S (S (S
                                                                    (S (S (S
                                                                    (S (S (S
                                                                    (S (S (S
                                                                    (S (S (S
                                                                    (S (S (S
                                                                    (S (S (S
                                                                    (S (S (S
                                                                    (S (S (S
                                                                    (S (S (S
                                                                    (S (S (S
                                                                    (S (S (S
                                                                    (S (S (S
                                                                    (S (S (S
                                                                    (S (S (S
                                                                    (S (S (S
                                                                    (S (S (S
                                                                    (S (S (S
                                                                    (S (S (S
                                                                    (S (S (S
                                                                    (S (S (S
                                                                    (S (S (S
                                                                    (S (S (S
                                                                    (S (S (S
                                                                    (S (S (S
                                                                    (S (S (S
                                                                    (S (S (S
                                                                    (S (S (S
                                                                    (S (S (S
                                                                    (S (S (S
                                                                    (S (S (S
                                                                    (S (S (S
                                                                    (S (S (S
                                                                    (S (S (S
                                                                    (S (S (S
                                                                    (S (S (S
                                                                    (S (S (S
                                                                    (S (S (S
                                                                    (S (S (S
                                                                    (S (S (S
                                                                    (S (S (S
                                                                    (S (S (S
                                                                    (S (S (S
                                                                    (S (S (S
                                                                    (S (S (S
                                                                    (S (S (S
                                                                    (S (S (S
                                                                    (S (S (S
                                                                    (S (S (S
                                                                    (S (S (S
                                                                    (S (S (S
                                                                    (S (S (S
                                                                    (S (S (S
                                                                    (S (S (S
                                                                    (S (S (S
                                                                    (S (S (S
                                                                    (S (S (S
                                                                    (S (S (S
                                                                    (S (S (S
                                                                    (S (S (S
                                                                    (S (S (S
                                                                    (S (S (S
                                                                    (S (S (S
                                                                    (S (S (S
                                                                    (S (S (S
                                                                    (S (S (S
                                                                    (S (S (S
                                                                    (S (S (S
                                                                    (S (S (S
                                                                    (S (S (S
                                                                    (S (S (S
                                                                    (S (S (S
                                                                    (S (S (S
                                                                    (S (S (S
                                                                    (S (S (S
                                                                    (S (S (S
                                                                    (S (S (S
                                                                    (S (S (S
                                                                    (S (S (S
                                                                    (S (S (S
                                                                    (S (S (S
                                                                    (S (S (S
                                                                    (S (S (S
                                                                    (S (S (S
                                                                    (S (S (S
                                                                    (S (S (S
                                                                    (S (S (S
                                                                    (S (S (S
                                                                    (S (S (S
                                                                    (S (S (S
                                                                    (S (S (S
                                                                    (S (S (S
                                                                    (S (S (S
                                                                    (S (S (S
                                                                    (S (S (S
                                                                    (S (S (S
                                                                    (S (S (S
                                                                    (S (S (S
                                                                    (S (S (S
                                                                    (S (S (S
                                                                    (S (S (S
                                                                    (S (S (S
                                                                    (S (S (S
                                                                    (S (S (S
                                                                    (S (S (S
                                                                    (S (S (S
                                                                    (S (S (S
                                                                    (S (S (S
                                                                    (S (S (S
                                                                    (S (S (S
                                                                    (S (S (S
                                                                    (S (S (S
                                                                    (S (S (S
                                                                    (S (S (S
                                                                    (S (S (S
                                                                    (S (S (S
                                                                    (S (S (S
                                                                    (S (S (S
                                                                    (S (S (S
                                                                    (S (S (S
                                                                    (S (S (S
                                                                    (S (S (S
                                                                    (S (S (S
                                                                    (S (S (S
                                                                    (S (S (S
                                                                    (S (S (S
                                                                    (S (S (S
                                                                    (S (S (S
                                                                    (S (S (S
                                                                    (S (S (S
                                                                    (S (S (S
                                                                    (S (S (S
                                                                    (S (S (S
                                                                    (S (S (S
                                                                    (S (S (S
                                                                    (S (S (S
                                                                    (S (S (S
                                                                    (S (S (S
                                                                    (S (S (S
                                                                    (S (S (S
                                                                    (S (S (S
                                                                    (S (S (S
                                                                    (S (S (S
                                                                    (S (S (S
                                                                    (S (S (S
                                                                    (S (S (S
                                                                    (S (S (S
                                                                    (S (S (S
                                                                    (S (S (S
                                                                    (S (S (S
                                                                    (S (S (S
                                                                    (S (S (S
                                                                    (S (S (S
                                                                    (S (S (S
                                                                    (S (S (S
                                                                    (S (S (S
                                                                    (S (S (S
                                                                    (S (S (S
                                                                    (S (S (S
                                                                    (S (S (S
                                                                    (S (S (S
                                                                    (S (S (S
                                                                    (S
                                                                    O))))))))))))))))))))))))))))))))))))))))))))))))))))))))))))))))))))))))))))))))))))))))))))))))))))))))))))))))))))))))))))))))))))))))))))))))))))))))))))))))))))))))))))))))))))))))))))))))))))))))))))))))))))))))))))))))))))))))))))))))))))))))))))))))))))))))))))))))))))))))))))))))))))))))))))))))))))))))))))))))))))))))))))))))))))))))))))))))))))))))))))))))))))))))))))))))))))))))))))))))))))))))))))))))))))))))))))))))))))))))))))))))))))))))))))))))))))))))))))))))))))))))))))))))))))))))))))))))))))))))))))))))))))))))))))))))))))))))))))))))))))))))))))))))))))))))))))))))))))))))))))))))))))))))))))))))))))))))))))))))))))))))))))))))))))))))))))))))))))))))))))))))))))))))))))))))))))))))))))))))))))))))))))))))))))))))))))))))))))))))))))))))))))))))))))))))))))))))))))))))))))))))))))))))))))))))))))))))))))))))))))))))))))))))))))))))))))))))))))))))))))))))))))))))))))))))))))))))))))))))))))))))))))))))))))))))))))))))))))))))))))))))))))))))))))))))))))))))))))))))))))))))))))))))))))))))
                                                                    (sub c1
                                                                    c0))
                                                                    then None
                                                                    else 
                                                                    let (
                                                                    r3, c3) =
                                                                    skip_sp
                                                                    r2
                                                                    (add c2
                                                                    (S (S O)))
                                                                    in
                                                                    (
                                                                    match 
                                                                    flow_node
                                                                    f r3 c3 with
                                                                    | Some p20 ->
                                                                    let (
                                                                    p21, c4) =
                                                                    p20
                                                                    in
                                                                    let (
                                                                    v, r4) =
                                                                    p21
                                                                    in
                                                                    let (
                                                                    r5, c5) =
                                                                    skip_sp
                                                                    r4 c4
                                                                    in
                                                                    (
                                                                    match r5 with
                                                                    | [] ->
                                                                    None
                                                                    | n3 :: r6 ->
                                                                    (match n3 with
                                                                    | N0 ->
                                                                    None
                                                                    | Npos p22 ->
                                                                    (match p22 with
                                                                    | XI p23 ->
                                                                    (match p23 with
                                                                    | XO p24 ->
                                                                    (match p24 with
                                                                    | XI p25 ->
                                                                    (match p25 with
                                                                    | XI p26 ->
                                                                    (match p26 with
                                                                    | XI p27 ->
                                                                    (match p27 with
                                                                    | XI p28 ->
                                                                    (match p28 with
                                                                    | XH ->
                                                                    Some
                                                                    (((build_map
                                                                    (rev
                                                                    (((unnums
                                                                    k),
                                                                    v) :: acc))),
                                                                    r6), (S
                                                                    c5))
                                                                    | _ ->
                                                                    None)
                                                                    | _ ->
                                                                    None)
                                                                    | _ ->
                                                                    None)
                                                                    | _ ->
                                                                    None)
                                                                    | _ ->
                                                                    None)
                                                                    | _ ->
                                                                    None)
                                                                    | XO p23 ->
                                                                    (match p23 with
                                                                    | XO p24 ->
                                                                    (match p24 with
                                                                    | XI p25 ->
                                                                    (match p25 with
                                                                    | XI p26 ->
                                                                    (match p26 with
                                                                    | XO p27 ->
                                                                    (match p27 with
                                                                    | XH ->
                                                                    let (
                                                                    r7, c7) =
                                                                    skip_sp
                                                                    r6 (S c5)
                                                                    in
                                                                    flow_map_items
                                                                    f r7 c7
                                                                    (((unnums
                                                                    k),
                                                                    v) :: acc)
                                                                    | _ ->
                                                                    None)
                                                                    | _ ->
                                                                    None)
                                                                    | _ ->
                                                                    None)
                                                                    | _ ->
                                                                    None)
                                                                    | _ ->
                                                                    None)
                                                                    | XH ->
                                                                    None)))
                                                                    | None ->
                                                                    None)
                                                                    | _ ->
                                                                    None)
                                                                    | _ ->
                                                                    None)
                                                                    | _ ->
                                                                    None)
                                                                    | _ ->
                                                                    None)
                                                                 | _ -> None)
                                                              | _ -> None)))
                                                     | _ -> None)
                                                  | _ -> None)
                                               | _ -> None)
                                            | _ -> None)
                                         | _ -> None)
                                      | _ -> None)))
                             | None -> None))
                       | _ ->
                         let p4 = (l, c) in
                         let explicit = false in
                         let (l1, c0) = p4 in
                         (match flow_scalar l1 c0 with
                          | Some p5 ->
                            let (p6, c1) = p5 in
                            let (k, r) = p6 in
                            let (r1, c2) = skip_sp r c1 in
                            (match r1 with
                             | [] -> None
                             | n1 :: l2 ->
                               (match n1 with
                                | N0 -> None
                                | Npos p7 ->
                                  (match p7 with
                                   | XO p8 ->
                                     (match p8 with
                                      | XI p9 ->
                                        (match p9 with
                                         | XO p10 ->
                                           (match p10 with
                                            | XI p11 ->
                                              (match p11 with
                                               | XI p12 ->
                                                 (match p12 with
                                                  | XH ->
                                                    (match l2 with
                                                     | [] -> None
                                                     | n2 :: r2 ->
                                                       (match n2 with
                                                        | N0 -> None
                                                        | Npos p13 ->
                                                          (match p13 with
                                                           | XO p14 ->
                                                             (match p14 with
                                                              | XO p15 ->
                                                                (match p15 with
                                                                 | XO p16 ->
                                                                   (match p16 with
                                                                    | XO p17 ->
                                                                    (match p17 with
                                                                    | XO p18 ->
                                                                    (match p18 with
                                                                    | XH ->
                                                                    if 
                                                                    (&&)
                                                                    (negb
                                                                    explicit)
                                                                    (Nat.ltb
                                                                    (S (S (S
                                                                    (S (S (S
                                                                    (S (S (S
                                                                    (S (S (S
                                                                    (S (S (S
                                                                    (S (S (S
                                                                    (S (S (S
                                                                    (S (S (S
                                                                    (S (S (S
                                                                    (S (S (S
                                                                    (S (S (S
                                                                    (S (S (S
                                                                    (S (S (S
                                                                    (S (S (S
                                                                    (S (S (S
                                                                    (S (S (S
                                                                    (S (S (S
                                                                    (S (S (S
                                                                    (S (S (S
                                                                    (S (S (S
                                                                    (S (S (S
                                                                    (S (S (S
                                                                    (S (S (S
                                                                    (S (S (S
                                                                    (S (S (S
                                                                    (S (S (S
                                                                    (S (S (S
                                                                    (S (S (S
                                                                    (S (S (S
                                                                    (S (S (S
                                                                    (S (S (S
                                                                    (S (S (S
                                                                    (S (S (S
                                                                    (S (S (S
                                                                    (S (S (S
                                                                    (S (S (S
                                                                    (S (S (S
                                                                    (S (S (S
                                                                    (S (S (S
                                                                    (S (S (S
                                                                    (S (S (S
                                                                    (S (S (S
                                                                    (S (S (S
                                                                    (S (S (S
                                                                    (S (S (S
                                                                    (S (S (S
                                                                    (S (S (S
                                                                    (S (S (S
                                                                    (S (S (S
                                                                    (S (S (S
                                                                    (S (S (S
                                                                    (S (S (S
                                                                    (S (S (S
                                                                    (S (S (S
                                                                    (S (S (S
                                                                    (S (S (S
                                                                    (S (S (S
                                                                    (S (S (S
                                                                    (S (S (S
                                                                    (S (S (S
                                                                    (S (S (S
                                                                    (S (S (S
                                                                    (S (S (S
                                                                    (S (S (S
                                                                    (S (S (S
                                                                    (S (S (S
                                                                    (S (S (S
                                                                    (S (S (S
                                                                    (S (S (S
                                                                    (S (S (S
                                                                    (S (S (S
                                                                    (S (S (S
                                                                    (S (S (S
                                                                    (S (S (S
                                                                    (S (S (S
                                                                    (S (S (S
                                                                    (S (S (S
                                                                    (S (S (S
                                                                    (S (S (S
                                                                    (S (S (S
                                                                    (S (S (S
                                                                    (S (S (S
                                                                    (S (S (S
                                                                    (S (S (S
                                                                    (S (S (S
                                                                    (S (S (S
                                                                    (S (S (S
                                                                    (S (S (S
                                                                    (S (S (S
                                                                    (S (S (S
                                                                    (S (S (S
                                                                    (S (S (S
                                                                    (S (S (S
                                                                    (S (S (S
                                                                    (S (S (S
                                                                    (S (S (S
                                                                    (S (S (S
                                                                    (S (S (S
                                                                    (S (S (S
                                                                    (S (S (S
                                                                    (S (S (S
                                                                    (S (S (S
                                                                    (S (S (S
                                                                    (S (S (S
                                                                    (S (S (S
                                                                    (S (S (S
                                                                    (S (S (S
                                                                    (S (S (S
                                                                    (S (S (S
                                                                    (S (S (S
                                                                    (S (S (S
                                                                    (S (S (S
                                                                    (S (S (S
                                                                    (S (S (S
                                                                    (S (S (S
                                                                    (S (S (S
                                                                    (S (S (S
                                                                    (S (S (S
                                                                    (S (S (S
                                                                    (S (S (S
                                                                    (S (S (S
                                                                    (S (S (S
                                                                    (S (S (S
                                                                    (S (S (S
                                                                    (S (S (S
                                                                    (S (S (S
                                                                    (S (S (S
                                                                    (S (S (S
                                                                    (S (S (S
                                                                    (S (S (S
                                                                    (S (S (S
                                                                    (S (S (S
                                                                    (S (S (S
                                                                    (S (S (S
                                                                    (S (S (S
                                                                    (S (S (S
                                                                    (S (S (S
                                                                    (S (S (S
                                                                    (S (S (S
                                                                    (S (S (S
                                                                    (S (S (S
                                                                    (S (S (S
                                                                    (S (S (S
                                                                    (S (S (S
                                                                    (S (S (S
                                                                    (S (S (S
                                                                    (S (S (S
                                                                    (S (S (S
                                                                    (S (S (S
                                                                    (S (S (S
                                                                    (S (S (S
                                                                    (S (S (S
                                                                    (S (S (S
                                                                    (S (S (S
                                                                    (S (S (S
                                                                    (S (S (S
                                                                    (S (S (S
                                                                    (S (S (S
                                                                    (S (S (S
                                                                    (S (S (S
                                                                    (S (S (S
                                                                    (S (S (S
                                                                    (S (S (S
                                                                    (S (S (S
                                                                    (S (S (S
                                                                    (S (S (S
                                                                    (S (S (S
                                                                    (S (S (S
                                                                    (S (S (S
                                                                    (S (S (S
                                                                    (S (S (S
                                                                    (S (S (S
                                                                    (S (S (S
                                                                    (S (S (S
                                                                    (S (S (S
                                                                    (S (S (S
                                                                    (S (S (S
                                                                    (S (S (S
                                                                    (S (S (S
                                                                    (S (S (S
                                                                    (S (S (S
                                                                    (S (S (S
                                                                    (S (S (S
                                                                    (S (S (S
                                                                    (S (S (S
                                                                    (S (S (S
                                                                    (S (S (S
                                                                    (S (S (S
                                                                    (S (S (S
                                                                    (S (S (S
                                                                    (S (S (S
                                                                    (S (S (S
                                                                    (S (S (S
                                                                    (S (S (S
                                                                    (S (S (S
                                                                    (S (S (S
                                                                    (S (S (S
                                                                    (S (S (S
                                                                    (S (S (S
                                                                    (S (S (S
                                                                    (S (S (S
                                                                    (S (S (S
                                                                    (S (S (S
                                                                    (S (S (S
                                                                    (S (S (S
                                                                    (S (S (S
                                                                    (S (S (S
                                                                    (S (S (S
                                                                    (S (S (S
                                                                    (S (S (S
                                                                    (S (S (S
                                                                    (S (S (S
                                                                    (S (S (S
                                                                    (S (S (S
                                                                    (S (S (S
                                                                    (S (S (S
                                                                    (S (S (S
                                                                    (S (S (S
                                                                    (S (S (S
                                                                    (S (S (S
                                                                    (S (S (S
                                                                    (S (S (S
                                                                    (S (S (S
                                                                    (S (S (S
                                                                    (S (S (S
                                                                    (S (S (S
                                                                    (S (S (S
                                                                    (S (S (S
                                                                    (S (S (S
                                                                    (S (S (S
                                                                    (S (S (S
                                                                    (S (S (S
                                                                    (S (S (S
                                                                    (S (S (S
                                                                    (S (S (S
                                                                    (S (S (S
                                                                    (S (S (S
                                                                    (S (S (S
                                                                    (S (S (S
                                                                    (S (S (S
                                                                    (S (S (S
                                                                    (S (S (S
                                                                    (S (S (S
                                                                    (S (S (S
                                                                    (S (S (S
                                                                    (S (S (S
                                                                    (S (S (S
                                                                    (S (S (S
                                                                    (S (S (S
                                                                    (S (S (S
                                                                    (S (S (S
                                                                    (S (S (S
                                                                    (S (S (S
                                                                    (S (S (S
                                                                    (S (S (S
                                                                    (S (S (S
                                                                    (S (S (S
                                                                    (S (S (S
                                                                    (S (S (S
                                                                    (S (S (S
                                                                    (S (S (S
                                                                    (S (S (S
                                                                    (S (S (S
                                                                    (S (S (S
                                                                    (S (S (S
                                                                    (S (S (S
                                                                    (S (S (S
                                                                    (S (S (S
                                                                    (S (S (S
                                                                    (S (S (S
                                                                    (S (S (S
                                                                    (S (S (S
                                                                    (S (S (S
                                                                    (S (S (S
                                                                    (S (S (S
                                                                    (S (S (S
                                                                    (S (S (S
                                                                    (S (S (S
                                                                    (S (S (S
                                                                    (S (S (S
                                                                    (S (S (S
                                                                    (S (S (S
                                                                    (S (S (S
                                                                    (S (S (S
                                                                    (S (S (S
                                                                    (S (S (S
                                                                    (S (S (S
                                                                    (S (S (S
                                                                    (S (S (S
                                                                    (S (S (S
                                                                    (S (S (S
                                                                    (S (S (S
                                                                    (S (S (S
                                                                    (S (S (S
                                                                    (S (S (S
                                                                    (S (S (S
                                                                    (S (S (S
                                                                    (S (S (S
                                                                    (S (S (S
                                                                    (S (S (S
                                                                    (S (S (S
                                                                    (S (S (S
                                                                    (S (S (S
                                                                    (S (S (S
                                                                    (S (S (S
                                                                    (S (S (S
                                                                    (S (S (S
                                                                    (S (S (S
                                                                    (S (S (S
                                                                    (S (S (S
                                                                    (S (S (S
                                                                    (S (S (S
                                                                    (S (S (S
                                                                    (S (S (S
                                                                    (S (S (S
                                                                    (S (S (S
                                                                    (S (S (S
                                                                    (S (S (S
                                                                    (S (S (S
                                                                    (S (S (S
                                                                    (S (S (S
                                                                    (S (S (S
                                                                    (S (S (S
                                                                    (S (S (S
                                                                    (S (S (S
                                                                    (S (S (S
                                                                    (S (S (S
                                                                    (S (S (S
                                                                    (S (S (S
                                                                    (S (S (S
                                                                    (S (S (S
                                                                    (S (S (S
                                                                    (S (S (S
                                                                    (S (S (S
                                                                    (S (S (S
                                                                    (S (S (S
                                                                    (S (S (S
                                                                    (S (S (S
                                                                    (S (S (S
                                                                    (S (S (S
                                                                    (S (S (S
                                                                    (S
                                                                    O))))))))))))))))))))))))))))))))))))))))))))))))))))))))))))))))))))))))))))))))))))))))))))))))))))))))))))))))))))))))))))))))))))))))))))))))))))))))))))))))))))))))))))))))))))))))))))))))))))))))))))))))))))))))))))))))))))))))))))))))))))))))))))))))))))))))))))))))))))))))))))))))))))))))))))))))))))))))))))))))))))))))))))))))))))))))))))))))))))))))))))))))))))))))))))))))))))))))))))))))))))))))))))))))))))))))))))))))))))))))))))))))))))))))))))))))))))))))))))))))))))))))))))))))))))))))))))))))))))))))))))))))))))))))))))))))))))))))))))))))))))))))))))))))))))))))))))))))))))))))))))))))))))))))))))))))))))))))))))))))))))))))))))))))))))))))))))))))))))))))))))))))))))))))))))))))))))))))))))))))))))))))))))))))))))))))))))))))))))))))))))))))))))))))))))))))))))))))))))))))))))))))))))))))))))))))))))))))))))))))))))))))))))))))))))))))))))))))))))))))))))))))))))))))))))))))))))))))))))))))))))))))))))))))))))))))))))))))))))))))))))))))))))))))))))))))))))))))))))))))))))))))))))))))))))))))
                                                                    (sub c1
                                                                    c0))
                                                                    then None
                                                                    else 
                                                                    let (
                                                                    r3, c3) =
                                                                    skip_sp
                                                                    r2
                                                                    (add c2
                                                                    (S (S O)))
                                                                    in
                                                                    (
                                                                    match 
                                                                    flow_node
                                                                    f r3 c3 with
                                                                    | Some p19 ->
                                                                    let (
                                                                    p20, c4) =
                                                                    p19
                                                                    in
                                                                    let (
                                                                    v, r4) =
                                                                    p20
                                                                    in
                                                                    let (
                                                                    r5, c5) =
                                                                    skip_sp
                                                                    r4 c4
                                                                    in
                                                                    (
                                                                    match r5 with
                                                                    | [] ->
                                                                    None
                                                                    | n3 :: r6 ->
                                                                    (match n3 with
                                                                    | N0 ->
                                                                    None
                                                                    | Npos p21 ->
                                                                    (match p21 with
                                                                    | XI p22 ->
                                                                    (match p22 with
                                                                    | XO p23 ->
                                                                    (match p23 with
                                                                    | XI p24 ->
                                                                    (match p24 with
                                                                    | XI p25 ->
                                                                    (match p25 with
                                                                    | XI p26 ->
                                                                    (match p26 with
                                                                    | XI p27 ->
                                                                    (match p27 with
                                                                    | XH ->
                                                                    Some
                                                                    (((build_map
                                                                    (rev
                                                                    (((unnums
                                                                    k),
                                                                    v) :: acc))),
                                                                    r6), (S
                                                                    c5))
                                                                    | _ ->
                                                                    None)
                                                                    | _ ->
                                                                    None)
                                                                    | _ ->
                                                                    None)
                                                                    | _ ->
                                                                    None)
                                                                    | _ ->
                                                                    None)
                                                                    | _ ->
                                                                    None)
                                                                    | XO p22 ->
                                                                    (match p22 with
                                                                    | XO p23 ->
                                                                    (match p23 with
                                                                    | XI p24 ->
                                                                    (match p24 with
                                                                    | XI p25 ->
                                                                    (match p25 with
                                                                    | XO p26 ->
                                                                    (match p26 with
                                                                    | XH ->
                                                                    let (
                                                                    r7, c7) =
                                                                    skip_sp
                                                                    r6 (S c5)
                                                                    in
                                                                    flow_map_items
                                                                    f r7 c7
                                                                    (((unnums
                                                                    k),
                                                                    v) :: acc)
                                                                    | _ ->
                                                                    None)
                                                                    | _ ->
                                                                    None)
                                                                    | _ ->
                                                                    None)
                                                                    | _ ->
                                                                    None)
                                                                    | _ ->
                                                                    None)
                                                                    | XH ->
                                                                    None)))
                                                                    | None ->
                                                                    None)
                                                                    | _ ->
                                                                    None)
                                                                    | _ ->
                                                                    None)
                                                                    | _ ->
                                                                    None)
                                                                 | _ -> None)
                                                              | _ -> None)
                                                           | _ -> None)))
                                                  | _ -> None)
                                               | _ -> None)
                                            | _ -> None)
                                         | _ -> None)
                                      | _ -> None)
                                   | _ -> None)))
                          | None -> None))
                    | _ ->
                      let p3 = (l, c) in
                      let explicit = false in
                      let (l1, c0) = p3 in
                      (match flow_scalar l1 c0 with
                       | Some p4 ->
                         let (p5, c1) = p4 in
                         let (k, r) = p5 in
                         let (r1, c2) = skip_sp r c1 in
                         (match r1 with
                          | [] -> None
                          | n1 :: l2 ->
                            (match n1 with
                             | N0 -> None
                             | Npos p6 ->
                               (match p6 with
                                | XO p7 ->
                                  (match p7 with
                                   | XI p8 ->
                                     (match p8 with
                                      | XO p9 ->
                                        (match p9 with
                                         | XI p10 ->
                                           (match p10 with
                                            | XI p11 ->
                                              (match p11 with
                                               | XH ->
                                                 (match l2 with
                                                  | [] -> None
                                                  | n2 :: r2 ->
                                                    (match n2 with
                                                     | N0 -> None
                                                     | Npos p12 ->
                                                       (match p12 with
                                                        | XO p13 ->
                                                          (match p13 with
                                                           | XO p14 ->
                                                             (match p14 with
                                                              | XO p15 ->
                                                                (match p15 with
                                                                 | XO p16 ->
                                                                   (match p16 with
                                                                    | XO p17 ->
                                                                    (match p17 with
                                                                    | XH ->
                                                                    if 
                                                                    (&&)
                                                                    (negb
                                                                    explicit)
                                                                    (Nat.ltb
                                                                    (S (S (S
                                                                    (S (S (S
                                                                    (S (S (S
                                                                    (S (S (S
                                                                    (S (S (S
                                                                    (S (S (S
                                                                    (S (S (S
                                                                    (S (S (S
                                                                    (S (S (S
                                                                    (S (S (S
                                                                    (S (S (S
                                                                    (S (S (S
                                                                    (S (S (S
                                                                    (S (S (S
                                                                    (S (S (S
                                                                    (S (S (S
                                                                    (S (S (S
                                                                    (S (S (S
                                                                    (S (S (S
                                                                    (S (S (S
                                                                    (S (S (S
                                                                    (S (S (S
                                                                    (S (S (S
                                                                    (S (S (S
                                                                    (S (S (S
                                                                    (S (S (S
                                                                    (S (S (S
                                                                    (S (S (S
                                                                    (S (S (S
                                                                    (S (S (S
                                                                    (S (S (S
                                                                    (S (S (S
                                                                    (S (S (S
                                                                    (S (S (S
                                                                    (S (S (S
                                                                    (S (S (S
                                                                    (S (S (S
                                                                    (S (S (S
                                                                    (S (S (S
                                                                    (S (S (S
                                                                    (S (S (S
                                                                    (S (S (S
                                                                    (S (S (S
                                                                    (S (S (S
                                                                    (S (S (S
                                                                    (S (S (S
                                                                    (S (S (S
                                                                    (S (S (S
                                                                    (S (S (S
                                                                    (S (S (S
                                                                    (S (S (S
                                                                    (S (S (S
                                                                    (S (S (S
                                                                    (S (S (S
                                                                    (S (S (S
                                                                    (S (S (S
                                                                    (S (S (S
                                                                    (S (S (S
                                                                    (S (S (S
                                                                    (S (S (S
                                                                    (S (S (S
                                                                    (S (S (S
                                                                    (S (S (S
                                                                    (S (S (S
                                                                    (S (S (S
                                                                    (S (S (S
                                                                    (S (S (S
                                                                    (S (S (S
                                                                    (S (S (S
                                                                    (S (S (S
                                                                    (S (S (S
                                                                    (S (S (S
                                                                    (S (S (S
                                                                    (S (S (S
                                                                    (S (S (S
                                                                    (S (S (S
                                                                    (S (S (S
                                                                    (S (S (S
                                                                    (S (S (S
                                                                    (S (S (S
                                                                    (S (S (S
                                                                    (S (S (S
                                                                    (S (S (S
                                                                    (S (S (S
                                                                    (S (S (S
                                                                    (S (S (S
                                                                    (S (S (S
                                                                    (S (S (S
                                                                    (S (S (S
                                                                    (S (S (S
                                                                    (S (S (S
                                                                    (S (S (S
                                                                    (S (S (S
                                                                    (S (S (S
                                                                    (S (S (S
                                                                    (S (S (S
                                                                    (S (S (S
                                                                    (S (S (S
                                                                    (S (S (S
                                                                    (S (S (S
                                                                    (S (S (S
                                                                    (S (S (S
                                                                    (S (S (S
                                                                    (S (S (S
                                                                    (S (S (S
                                                                    (S (S (S
                                                                    (S (S (S
                                                                    (S (S (S
                                                                    (S (S (S
                                                                    (S (S (S
                                                                    (S (S (S
                                                                    (S (S (S
                                                                    (S (S (S
                                                                    (S (S (S
                                                                    (S (S (S
                                                                    (S (S (S
                                                                    (S (S (S
                                                                    (S (S (S
                                                                    (S (S (S
                                                                    (S (S (S
                                                                    (S (S (S
                                                                    (S (S (S
                                                                    (S (S (S
                                                                    (S (S (S
                                                                    (S (S (S
                                                                    (S (S (S
                                                                    (S (S (S
                                                                    (S (S (S
                                                                    (S (S (S
                                                                    (S (S (S
                                                                    (S (S (S
                                                                    (S (S (S
                                                                    (S (S (S
                                                                    (S (S (S
                                                                    (S (S (S
                                                                    (S (S (S
                                                                    (S (S (S
                                                                    (S (S (S
                                                                    (S (S (S
                                                                    (S (S (S
                                                                    (S (S (S
                                                                    (S (S (S
                                                                    (S (S (S
                                                                    (S (S (S
                                                                    (S (S (S
                                                                    (S (S (S
                                                                    (S (S (S
                                                                    (S (S (S
                                                                    (S (S (S
                                                                    (S (S (S
                                                                    (S (S (S
                                                                    (S (S (S
                                                                    (S (S (S
                                                                    (S (S (S
                                                                    (S (S (S
                                                                    (S (S (S
                                                                    (S (S (S
                                                                    (S (S (S
                                                                    (S (S (S
                                                                    (S (S (S
                                                                    (S (S (S
                                                                    (S (S (S
                                                                    (S (S (S
                                                                    (S (S (S
                                                                    (S (S (S
                                                                    (S (S (S
                                                                    (S (S (S
                                                                    (S (S (S
                                                                    (S (S (S
                                                                    (S (S (S
                                                                    (S (S (S
                                                                    (S (S (S
                                                                    (S (S (S
                                                                    (S (S (S
                                                                    (S (S (S
                                                                    (S (S (S
                                                                    (S (S (S
                                                                    (S (S (S
                                                                    (S (S (S
                                                                    (S (S (S
                                                                    (S (S (S
                                                                    (S (S (S
                                                                    (S (S (S
                                                                    (S (S (S
                                                                    (S (S (S
                                                                    (S (S (S
                                                                    (S (S (S
                                                                    (S (S (S
                                                                    (S (S (S
                                                                    (S (S (S
                                                                    (S (S (S
                                                                    (S (S (S
                                                                    (S (S (S
                                                                    (S (S (S
                                                                    (S (S (S
                                                                    (S (S (S
                                                                    (S (S (S
                                                                    (S (S (S
                                                                    (S (S (S
                                                                    (S (S (S
                                                                    (S (S (S
                                                                    (S (S (S
                                                                    (S (S (S
                                                                    (S (S (S
                                                                    (S (S (S
                                                                    (S (S (S
                                                                    (S (S (S
                                                                    (S (S (S
                                                                    (S (S (S
                                                                    (S (S (S
                                                                    (S (S (S
                                                                    (S (S (S
                                                                    (S (S (S
                                                                    (S (S (S
                                                                    (S (S (S
                                                                    (S (S (S
                                                                    (S (S (S
                                                                    (S (S (S
                                                                    (S (S (S
                                                                    (S (S (S
                                                                    (S (S (S
                                                                    (S (S (S
                                                                    (S (S (S
                                                                    (S (S (S
                                                                    (S (S (S
                                                                    (S (S (S
                                                                    (S (S (S
                                                                    (S (S (S
                                                                    (S (S (S
                                                                    (S (S (S
                                                                    (S (S (S
                                                                    (S (S (S
                                                                    (S (S (S
                                                                    (S (S (S
                                                                    (S (S (S
                                                                    (S (S (S
                                                                    (S (S (S
                                                                    (S (S (S
                                                                    (S (S (S
                                                                    (S (S (S
                                                                    (S (S (S
                                                                    (S (S (S
                                                                    (S (S (S
                                                                    (S (S (S
                                                                    (S (S (S
                                                                    (S (S (S
                                                                    (S (S (S
                                                                    (S (S (S
                                                                    (S (S (S
                                                                    (S (S (S
                                                                    (S (S (S
                                                                    (S (S (S
                                                                    (S (S (S
                                                                    (S (S (S
                                                                    (S (S (S
                                                                    (S (S (S
                                                                    (S (S (S
                                                                    (S (S (S
                                                                    (S (S (S
                                                                    (S (S (S
                                                                    (S (S (S
                                                                    (S (S (S
                                                                    (S (S (S
                                                                    (S (S (S
                                                                    (S (S (S
                                                                    (S (S (S
                                                                    (S (S (S
                                                                    (S (S (S
                                                                    (S (S (S
                                                                    (S (S (S
                                                                    (S (S (S
                                                                    (S (S (S
                                                                    (S (S (S
                                                                    (S (S (S
                                                                    (S (S (S
                                                                    (S (S (S
                                                                    (S (S (S
                                                                    (S (S (S
                                                                    (S (S (S
                                                                    (S (S (S
                                                                    (S (S (S
                                                                    (S (S (S
                                                                    (S (S (S
                                                                    (S (S (S
                                                                    (S (S (S
                                                                    (S (S (S
                                                                    (S (S (S
                                                                    (S (S (S
                                                                    (S (S (S
                                                                    (S (S (S
                                                                    (S (S (S
                                                                    (S (S (S
                                                                    (S (S (S
                                                                    (S (S (S
                                                                    (S (S (S
                                                                    (S (S (S
                                                                    (S (S (S
                                                                    (S (S (S
                                                                    (S (S (S
                                                                    (S (S (S
                                                                    (S (S (S
                                                                    (S (S (S
                                                                    (S (S (S
                                                                    (S (S (S
                                                                    (S (S (S
                                                                    (S (S (S
                                                                    (S (S (S
                                                                    (S (S (S
                                                                    (S (S (S
                                                                    (S (S (S
                                                                    (S (S (S
                                                                    (S (S (S
                                                                    (S (S (S
                                                                    (S (S (S
                                                                    (S (S (S
                                                                    (S (S (S
                                                                    (S (S (S
                                                                    (S (S (S
                                                                    (S (S (S
                                                                    (S (S (S
                                                                    (S (S (S
                                                                    (S (S (S
                                                                    (S (S (S
                                                                    (S (S (S
                                                                    (S (S (S
                                                                    (S (S (S
                                                                    (S (S (S
                                                                    (S (S (S
                                                                    (S (S (S
                                                                    (S (S (S
                                                                    (S (S (S
                                                                    (S (S (S
                                                                    (S (S (S
                                                                    (S (S (S
                                                                    (S (S (S
                                                                    (S (S (S
                                                                    (S (S (S
                                                                    (S (S (S
                                                                    (S (S (S
                                                                    (S (S (S
                                                                    (S (S (S
                                                                    (S
                                                                    O))))))))))))))))))))))))))))))))))))))))))))))))))))))))))))))))))))))))))))))))))))))))))))))))))))))))))))))))))))))))))))))))))))))))))))))))))))))))))))))))))))))))))))))))))))))))))))))))))))))))))))))))))))))))))))))))))))))))))))))))))))))))))))))))))))))))))))))))))))))))))))))))))))))))))))))))))))))))))))))))))))))))))))))))))))))))))))))))))))))))))))))))))))))))))))))))))))))))))))))))))))))))))))))))))))))))))))))))))))))))))))))))))))))))))))))))))))))))))))))))))))))))))))))))))))))))))))))))))))))))))))))))))))))))))))))))))))))))))))))))))))))))))))))))))))))))))))))))))))))))))))))))))))))))))))))))))))))))))))))))))))))))))))))))))))))))))))))))))))))))))))))))))))))))))))))))))))))))))))))))))))))))))))))))))))))))))))))))))))))))))))))))))))))))))))))))))))))))))))))))))))))))))))))))))))))))))))))))))))))))))))))))))))))))))))))))))))))))))))))))))))))))))))))))))))))))))))))))))))))))))))))))))))))))))))))))))))))))))))))))))))))))))))))))))))))))))))))))))))))))))))))))))))))))))))))))
                                                                    (sub c1
                                                                    c0))
                                                                    then None
                                                                    else 
                                                                    let (
                                                                    r3, c3) =
                                                                    skip_sp
                                                                    r2
                                                                    (add c2
                                                                    (S (S O)))
                                                                    in
                                                                    (
                                                                    match 
                                                                    flow_node
                                                                    f r3 c3 with
                                                                    | Some p18 ->
                                                                    let (
                                                                    p19, c4) =
                                                                    p18
                                                                    in
                                                                    let (
                                                                    v, r4) =
                                                                    p19
                                                                    in
                                                                    let (
                                                                    r5, c5) =
                                                                    skip_sp
                                                                    r4 c4
                                                                    in
                                                                    (
                                                                    match r5 with
                                                                    | [] ->
                                                                    None
                                                                    | n3 :: r6 ->
                                                                    (match n3 with
                                                                    | N0 ->
                                                                    None
                                                                    | Npos p20 ->
                                                                    (match p20 with
                                                                    | XI p21 ->
                                                                    (match p21 with
                                                                    | XO p22 ->
                                                                    (match p22 with
                                                                    | XI p23 ->
                                                                    (match p23 with
                                                                    | XI p24 ->
                                                                    (match p24 with
                                                                    | XI p25 ->
                                                                    (match p25 with
                                                                    | XI p26 ->
                                                                    (match p26 with
                                                                    | XH ->
                                                                    Some
                                                                    (((build_map
                                                                    (rev
                                                                    (((unnums
                                                                    k),
                                                                    v) :: acc))),
                                                                    r6), (S
                                                                    c5))
                                                                    | _ ->
                                                                    None)
                                                                    | _ ->
                                                                    None)
                                                                    | _ ->
                                                                    None)
                                                                    | _ ->
                                                                    None)
                                                                    | _ ->
                                                                    None)
                                                                    | _ ->
                                                                    None)
                                                                    | XO p21 ->
                                                                    (match p21 with
                                                                    | XO p22 ->
                                                                    (match p22 with
                                                                    | XI p23 ->
                                                                    (match p23 with
                                                                    | XI p24 ->
                                                                    (match p24 with
                                                                    | XO p25 ->
                                                                    (match p25 with
                                                                    | XH ->
                                                                    let (
                                                                    r7, c7) =
                                                                    skip_sp
                                                                    r6 (S c5)
                                                                    in
                                                                    flow_map_items
                                                                    f r7 c7
                                                                    (((unnums
                                                                    k),
                                                                    v) :: acc)
                                                                    | _ ->
                                                                    None)
                                                                    | _ ->
                                                                    None)
                                                                    | _ ->
                                                                    None)
                                                                    | _ ->
                                                                    None)
                                                                    | _ ->
                                                                    None)
                                                                    | XH ->
                                                                    None)))
                                                                    | None ->
                                                                    None)
                                                                    | _ ->
                                                                    None)
                                                                    | _ ->
                                                                    None)
                                                                 | _ -> None)
                                                              | _ -> None)
                                                           | _ -> None)
                                                        | _ -> None)))
                                               | _ -> None)
                                            | _ -> None)
                                         | _ -> None)
                                      | _ -> None)
                                   | _ -> None)
                                | _ -> None)))
                       | None -> None))
                 | _ ->
                   let p2 = (l, c) in
                   let explicit = false in
                   let (l1, c0) = p2 in
                   (match flow_scalar l1 c0 with
                    | Some p3 ->
                      let (p4, c1) = p3 in
                      let (k, r) = p4 in
                      let (r1, c2) = skip_sp r c1 in
                      (match r1 with
                       | [] -> None
                       | n1 :: l2 ->
                         (match n1 with
                          | N0 -> None
                          | Npos p5 ->
                            (match p5 with
                             | XO p6 ->
                               (match p6 with
                                | XI p7 ->
                                  (match p7 with
                                   | XO p8 ->
                                     (match p8 with
                                      | XI p9 ->
                                        (match p9 with
                                         | XI p10 ->
                                           (match p10 with
                                            | XH ->
                                              (match l2 with
                                               | [] -> None
                                               | n2 :: r2 ->
                                                 (match n2 with
                                                  | N0 -> None
                                                  | Npos p11 ->
                                                    (match p11 with
                                                     | XO p12 ->
                                                       (match p12 with
                                                        | XO p13 ->
                                                          (match p13 with
                                                           | XO p14 ->
                                                             (match p14 with
                                                              | XO p15 ->
                                                                (match p15 with
                                                                 | XO p16 ->
                                                                   (match p16 with
                                                                    | XH ->
                                                                    if 
                                                                    (&&)
                                                                    (negb
                                                                    explicit)
                                                                    (Nat.ltb
                                                                    (S (S (S
                                                                    (S (S (S
                                                                    (S (S (S
                                                                    (S (S (S
                                                                    (S (S (S
                                                                    (S (S (S
                                                                    (S (S (S
                                                                    (S (S (S
                                                                    (S (S (S
                                                                    (S (S (S
                                                                    (S (S (S
                                                                    (S (S (S
                                                                    (S (S (S
                                                                    (S (S (S
                                                                    (S (S (S
                                                                    (S (S (S
                                                                    (S (S (S
                                                                    (S (S (S
                                                                    (S (S (S
                                                                    (S (S (S
                                                                    (S (S (S
                                                                    (S (S (S
                                                                    (S (S (S
                                                                    (S (S (S
                                                                    (S (S (S
                                                                    (S (S (S
                                                                    (S (S (S
                                                                    (S (S (S
                                                                    (S (S (S
                                                                    (S (S (S
                                                                    (S (S (S
                                                                    (S (S (S
                                                                    (S (S (S
                                                                    (S (S (S
                                                                    (S (S (S
                                                                    (S (S (S
                                                                    (S (S (S
                                                                    (S (S (S
                                                                    (S (S (S
                                                                    (S (S (S
                                                                    (S (S (S
                                                                    (S (S (S
                                                                    (S (S (S
                                                                    (S (S (S
                                                                    (S (S (S
                                                                    (S (S (S
                                                                    (S (S (S
                                                                    (S (S (S
                                                                    (S (S (S
                                                                    (S (S (S
                                                                    (S (S (S
                                                                    (S (S (S
                                                                    (S (S (S
                                                                    (S (S (S
                                                                    (S (S (S
                                                                    (S (S (S
                                                                    (S (S (S
                                                                    (S (S (S
                                                                    (S (S (S
                                                                    (S (S (S
                                                                    (S (S (S
                                                                    (S (S (S
                                                                    (S (S (S
                                                                    (S (S (S
                                                                    (S (S (S
                                                                    (S (S (S
                                                                    (S (S (S
                                                                    (S (S (S
                                                                    (S (S (S
                                                                    (S (S (S
                                                                    (S (S (S
                                                                    (S (S (S
                                                                    (S (S (S
                                                                    (S (S (S
                                                                    (S (S (S
                                                                    (S (S (S
                                                                    (S (S (S
                                                                    (S (S (S
                                                                    (S (S (S
                                                                    (S (S (S
                                                                    (S (S (S
                                                                    (S (S (S
                                                                    (S (S (S
                                                                    (S (S (S
                                                                    (S (S (S
                                                                    (S (S (S
                                                                    (S (S (S
                                                                    (S (S (S
                                                                    (S (S (S
                                                                    (S (S (S
                                                                    (S (S (S
                                                                    (S (S (S
                                                                    (S (S (S
                                                                    (S (S (S
                                                                    (S (S (S
                                                                    (S (S (S
                                                                    (S (S (S
                                                                    (S (S (S
                                                                    (S (S (S
                                                                    (S (S (S
                                                                    (S (S (S
                                                                    (S (S (S
                                                                    (S (S (S
                                                                    (S (S (S
                                                                    (S (S (S
                                                                    (S (S (S
                                                                    (S (S (S
                                                                    (S (S (S
                                                                    (S (S (S
                                                                    (S (S (S
                                                                    (S (S (S
                                                                    (S (S (S
                                                                    (S (S (S
                                                                    (S (S (S
                                                                    (S (S (S
                                                                    (S (S (S
                                                                    (S (S (S
                                                                    (S (S (S
                                                                    (S (S (S
                                                                    (S (S (S
                                                                    (S (S (S
                                                                    (S (S (S
                                                                    (S (S (S
                                                                    (S (S (S
                                                                    (S (S (S
                                                                    (S (S (S
                                                                    (S (S (S
                                                                    (S (S (S
                                                                    (S (S (S
                                                                    (S (S (S
                                                                    (S (S (S
                                                                    (S (S (S
                                                                    (S (S (S
                                                                    (S (S (S
                                                                    (S (S (S
                                                                    (S (S (S
                                                                    (S (S (S
                                                                    (S (S (S
                                                                    (S (S (S
                                                                    (S (S (S
                                                                    (S (S (S
                                                                    (S (S (S
                                                                    (S (S (S
                                                                    (S (S (S
                                                                    (S (S (S
                                                                    (S (S (S
                                                                    (S (S (S
                                                                    (S (S (S
                                                                    (S (S (S
                                                                    (S (S (S
                                                                    (S (S (S
                                                                    (S (S (S
                                                                    (S (S (S
                                                                    (S (S (S
                                                                    (S (S (S
                                                                    (S (S (S
                                                                    (S (S (S
                                                                    (S (S (S
                                                                    (S (S (S
                                                                    (S (S (S
                                                                    (S (S (S
                                                                    (S (S (S
                                                                    (S (S (S
                                                                    (S (S (S
                                                                    (S (S (S
                                                                    (S (S (S
                                                                    (S (S (S
                                                                    (S (S (S
                                                                    (S (S (S
                                                                    (S (S (S
                                                                    (S (S (S
                                                                    (S (S (S
                                                                    (S (S (S
                                                                    (S (S (S
                                                                    (S (S (S
                                                                    (S (S (S
                                                                    (S (S (S
                                                                    (S (S (S
                                                                    (S (S (S
                                                                    (S (S (S
                                                                    (S (S (S
                                                                    (S (S (S
                                                                    (S (S (S
                                                                    (S (S (S
                                                                    (S (S (S
                                                                    (S (S (S
                                                                    (S (S (S
                                                                    (S (S (S
                                                                    (S (S (S
                                                                    (S (S (S
                                                                    (S (S (S
                                                                    (S (S (S
                                                                    (S (S (S
                                                                    (S (S (S
                                                                    (S (S (S
                                                                    (S (S (S
                                                                    (S (S (S
                                                                    (S (S (S
                                                                    (S (S (S
                                                                    (S (S (S
                                                                    (S (S (S
                                                                    (S (S (S
                                                                    (S (S (S
                                                                    (S (S (S
                                                                    (S (S (S
                                                                    (S (S (S
                                                                    (S (S (S
                                                                    (S (S (S
                                                                    (S (S (S
                                                                    (S (S (S
                                                                    (S (S (S
                                                                    (S (S (S
                                                                    (S (S (S
                                                                    (S (S (S
                                                                    (S (S (S
                                                                    (S (S (S
                                                                    (S (S (S
                                                                    (S (S (S
                                                                    (S (S (S
                                                                    (S (S (S
                                                                    (S (S (S
                                                                    (S (S (S
                                                                    (S (S (S
                                                                    (S (S (S
                                                                    (S (S (S
                                                                    (S (S (S
                                                                    (S (S (S
                                                                    (S (S (S
                                                                    (S (S (S
                                                                    (S (S (S
                                                                    (S (S (S
                                                                    (S (S (S
                                                                    (S (S (S
                                                                    (S (S (S
                                                                    (S (S (S
                                                                    (S (S (S
                                                                    (S (S (S
                                                                    (S (S (S
                                                                    (S (S (S
                                                                    (S (S (S
                                                                    (S (S (S
                                                                    (S (S (S
                                                                    (S (S (S
                                                                    (S (S (S
                                                                    (S (S (S
                                                                    (S (S (S
                                                                    (S (S (S
                                                                    (S (S (S
                                                                    (S (S (S
                                                                    (S (S (S
                                                                    (S (S (S
                                                                    (S (S (S
                                                                    (S (S (S
                                                                    (S (S (S
                                                                    (S (S (S
                                                                    (S (S (S
                                                                    (S (S (S
                                                                    (S (S (S
                                                                    (S (S (S
                                                                    (S (S (S
                                                                    (S (S (S
                                                                    (S (S (S
                                                                    (S (S (S
                                                                    (S (S (S
                                                                    (S (S (S
                                                                    (S (S (S
                                                                    (S (S (S
                                                                    (S (S (S
                                                                    (S (S (S
                                                                    (S (S (S
                                                                    (S (S (S
                                                                    (S (S (S
                                                                    (S (S (S
                                                                    (S (S (S
                                                                    (S (S (S
                                                                    (S (S (S
                                                                    (S (S (S
                                                                    (S (S (S
                                                                    (S (S (S
                                                                    (S (S (S
                                                                    (S (S (S
                                                                    (S (S (S
                                                                    (S (S (S
                                                                    (S (S (S
                                                                    (S (S (S
                                                                    (S (S (S
                                                                    (S (S (S
                                                                    (S (S (S
                                                                    (S (S (S
                                                                    (S (S (S
                                                                    (S (S (S
                                                                    (S (S (S
                                                                    (S (S (S
                                                                    (S (S (S
                                                                    (S (S (S
                                                                    (S (S (S
                                                                    (S (S (S
                                                                    (S (S (S
                                                                    (S (S (S
                                                                    (S (S (S
                                                                    (S (S (S
                                                                    (S (S (S
                                                                    (S (S (S
                                                                    (S (S (S
                                                                    (S (S (S
                                                                    (S (S (S
                                                                    (S (S (S
                                                                    (S (S (S
                                                                    (S (S (S
                                                                    (S (S (S
                                                                    (S (S (S
                                                                    (S (S (S
                                                                    (S (S (S
                                                                    (S (S (S
                                                                    (S (S (S
                                                                    (S (S (S
                                                                    (S (S (S
                                                                    (S (S (S
                                                                    (S (S (S
                                                                    (S (S (S
                                                                    (S (S (S
                                                                    (S (S (S
                                                                    (S (S (S
                                                                    (S (S (S
                                                                    (S (S (S
                                                                    (S (S (S
                                                                    (S (S (S
                                                                    (S (S (S
                                                                    (S (S (S
                                                                    (S (S (S
                                                                    (S (S (S
                                                                    (S (S (S
                                                                    (S (S (S
                                                                    (S (S (S
                                                                    (S (S (S
                                                                    (S (S (S
                                                                    (S (S (S
                                                                    (S (S (S
                                                                    (S (S (S
                                                                    (S (S (S
                                                                    (S (S (S
                                                                    (S
                                                                    O))))))))))))))))))))))))))))))))))))))))))))))))))))))))))))))))))))))))))))))))))))))))))))))))))))))))))))))))))))))))))))))))))))))))))))))))))))))))))))))))))))))))))))))))))))))))))))))))))))))))))))))))))))))))))))))))))))))))))))))))))))))))))))))))))))))))))))))))))))))))))))))))))))))))))))))))))))))))))))))))))))))))))))))))))))))))))))))))))))))))))))))))))))))))))))))))))))))))))))))))))))))))))))))))))))))))))))))))))))))))))))))))))))))))))))))))))))))))))))))))))))))))))))))))))))))))))))))))))))))))))))))))))))))))))))))))))))))))))))))))))))))))))))))))))))))))))))))))))))))))))))))))))))))))))))))))))))))))))))))))))))))))))))))))))))))))))))))))))))))))))))))))))))))))))))))))))))))))))))))))))))))))))))))))))))))))))))))))))))))))))))))))))))))))))))))))))))))))))))))))))))))))))))))))))))))))))))))))))))))))))))))))))))))))))))))))))))))))))))))))))))))))))))))))))))))))))))))))))))))))))))))))))))))))))))))))))))))))))))))))))))))))))))))))))))))))))))))))))))))))))))))))))))))))))))))))
                                                                    (sub c1
                                                                    c0))
                                                                    then None
                                                                    else 
                                                                    let (
                                                                    r3, c3) =
                                                                    skip_sp
                                                                    r2
                                                                    (add c2
                                                                    (S (S O)))
                                                                    in
                                                                    (
                                                                    match 
                                                                    flow_node
                                                                    f r3 c3 with
                                                                    | Some p17 ->
                                                                    let (
                                                                    p18, c4) =
                                                                    p17
                                                                    in
                                                                    let (
                                                                    v, r4) =
                                                                    p18
                                                                    in
                                                                    let (
                                                                    r5, c5) =
                                                                    skip_sp
                                                                    r4 c4
                                                                    in
                                                                    (
                                                                    match r5 with
                                                                    | [] ->
                                                                    None
                                                                    | n3 :: r6 ->
                                                                    (match n3 with
                                                                    | N0 ->
                                                                    None
                                                                    | Npos p19 ->
                                                                    (match p19 with
                                                                    | XI p20 ->
                                                                    (match p20 with
                                                                    | XO p21 ->
                                                                    (match p21 with
                                                                    | XI p22 ->
                                                                    (match p22 with
                                                                    | XI p23 ->
                                                                    (match p23 with
                                                                    | XI p24 ->
                                                                    (match p24 with
                                                                    | XI p25 ->
                                                                    (match p25 with
                                                                    | XH ->
                                                                    Some
                                                                    (((build_map
                                                                    (rev
                                                                    (((unnums
                                                                    k),
                                                                    v) :: acc))),
                                                                    r6), (S
                                                                    c5))
                                                                    | _ ->
                                                                    None)
                                                                    | _ ->
                                                                    None)
                                                                    | _ ->
                                                                    None)
                                                                    | _ ->
                                                                    None)
                                                                    | _ ->
                                                                    None)
                                                                    | _ ->
                                                                    None)
                                                                    | XO p20 ->
                                                                    (match p20 with
                                                                    | XO p21 ->
                                                                    (match p21 with
                                                                    | XI p22 ->
                                                                    (match p22 with
                                                                    | XI p23 ->
                                                                    (match p23 with
                                                                    | XO p24 ->
                                                                    (match p24 with
                                                                    | XH ->
                                                                    let (
                                                                    r7, c7) =
                                                                    skip_sp
                                                                    r6 (S c5)
                                                                    in
                                                                    flow_map_items
                                                                    f r7 c7
                                                                    (((unnums
                                                                    k),
                                                                    v) :: acc)
                                                                    | _ ->
                                                                    None)
                                                                    | _ ->
                                                                    None)
                                                                    | _ ->
                                                                    None)
                                                                    | _ ->
                                                                    None)
                                                                    | _ ->
                                                                    None)
                                                                    | XH ->
                                                                    None)))
                                                                    | None ->
                                                                    None)
                                                                    | _ ->
                                                                    None)
                                                                 | _ -> None)
                                                              | _ -> None)
                                                           | _ -> None)
                                                        | _ -> None)
                                                     | _ -> None)))
                                            | _ -> None)
                                         | _ -> None)
                                      | _ -> None)
                                   | _ -> None)
                                | _ -> None)
                             | _ -> None)))
                    | None -> None))
              | _ ->
                let p1 = (l, c) in
                let explicit = false in
                let (l1, c0) = p1 in
                (match flow_scalar l1 c0 with
                 | Some p2 ->
                   let (p3, c1) = p2 in
                   let (k, r) = p3 in
                   let (r1, c2) = skip_sp r c1 in
                   (match r1 with
                    | [] -> None
                    | n1 :: l2 ->
                      (match n1 with
                       | N0 -> None
                       | Npos p4 ->
                         (match p4 with
                          | XO p5 ->
                            (match p5 with
                             | XI p6 ->
                               (match p6 with
                                | XO p7 ->
                                  (match p7 with
                                   | XI p8 ->
                                     (match p8 with
                                      | XI p9 ->
                                        (match p9 with
                                         | XH ->
                                           (match l2 with
                                            | [] -> None
                                            | n2 :: r2 ->
                                              (match n2 with
                                               | N0 -> None
                                               | Npos p10 ->
                                                 (match p10 with
                                                  | XO p11 ->
                                                    (match p11 with
                                                     | XO p12 ->
                                                       (match p12 with
                                                        | XO p13 ->
                                                          (match p13 with
                                                           | XO p14 ->
                                                             (match p14 with
                                                              | XO p15 ->
                                                                (match p15 with
                                                                 | XH ->
                                                                   if 
                                                                    (&&)
                                                                    (negb
                                                                    explicit)
                                                                    (Nat.ltb
                                                                    (S (S (S
                                                                    (S (S (S
                                                                    (S (S (S
                                                                    (S (S (S
                                                                    (S (S (S
                                                                    (S (S (S
                                                                    (S (S (S
                                                                    (S (S (S
                                                                    (S (S (S
                                                                    (S (S (S
                                                                    (S (S (S
                                                                    (S (S (S
                                                                    (S (S (S
                                                                    (S (S (S
                                                                    (S (S (S
                                                                    (S (S (S
                                                                    (S (S (S
                                                                    (S (S (S
                                                                    (S (S (S
                                                                    (S (S (S
                                                                    (S (S (S
                                                                    (S (S (S
                                                                    (S (S (S
                                                                    (S (S (S
                                                                    (S (S (S
                                                                    (S (S (S
                                                                    (S (S (S
                                                                    (S (S (S
                                                                    (S (S (S
                                                                    (S (S (S
                                                                    (S (S (S
                                                                    (S (S (S
                                                                    (S (S (S
                                                                    (S (S (S
                                                                    (S (S (S
                                                                    (S (S (S
                                                                    (S (S (S
                                                                    (S (S (S
                                                                    (S (S (S
                                                                    (S (S (S
                                                                    (S (S (S
                                                                    (S (S (S
                                                                    (S (S (S
                                                                    (S (S (S
                                                                    (S (S (S
                                                                    (S (S (S
                                                                    (S (S (S
                                                                    (S (S (S
                                                                    (S (S (S
                                                                    (S (S (S
                                                                    (S (S (S
                                                                    (S (S (S
                                                                    (S (S (S
                                                                    (S (S (S
                                                                    (S (S (S
                                                                    (S (S (S
                                                                    (S (S (S
                                                                    (S (S (S
                                                                    (S (S (S
                                                                    (S (S (S
                                                                    (S (S (S
                                                                    (S (S (S
                                                                    (S (S (S
                                                                    (S (S (S
                                                                    (S (S (S
                                                                    (S (S (S
                                                                    (S (S (S
                                                                    (S (S (S
                                                                    (S (S (S
                                                                    (S (S (S
                                                                    (S (S (S
                                                                    (S (S (S
                                                                    (S (S (S
                                                                    (S (S (S
                                                                    (S (S (S
                                                                    (S (S (S
                                                                    (S (S (S
                                                                    (S (S (S
                                                                    (S (S (S
                                                                    (S (S (S
                                                                    (S (S (S
                                                                    (S (S (S
                                                                    (S (S (S
                                                                    (S (S (S
                                                                    (S (S (S
                                                                    (S (S (S
                                                                    (S (S (S
                                                                    (S (S (S
                                                                    (S (S (S
                                                                    (S (S (S
                                                                    (S (S (S
                                                                    (S (S (S
                                                                    (S (S (S
                                                                    (S (S (S
                                                                    (S (S (S
                                                                    (S (S (S
                                                                    (S (S (S
                                                                    (S (S (S
                                                                    (S (S (S
                                                                    (S (S (S
                                                                    (S (S (S
                                                                    (S (S (S
                                                                    (S (S (S
                                                                    (S (S (S
                                                                    (S (S (S
                                                                    (S (S (S
                                                                    (S (S (S
                                                                    (S (S (S
                                                                    (S (S (S
                                                                    (S (S (S
                                                                    (S (S (S
                                                                    (S (S (S
                                                                    (S (S (S
                                                                    (S (S (S
                                                                    (S (S (S
                                                                    (S (S (S
                                                                    (S (S (S
                                                                    (S (S (S
                                                                    (S (S (S
                                                                    (S (S (S
                                                                    (S (S (S
                                                                    (S (S (S
                                                                    (S (S (S
                                                                    (S (S (S
                                                                    (S (S (S
                                                                    (S (S (S
                                                                    (S (S (S
                                                                    (S (S (S
                                                                    (S (S (S
                                                                    (S (S (S
                                                                    (S (S (S
                                                                    (S (S (S
                                                                    (S (S (S
                                                                    (S (S (S
                                                                    (S (S (S
                                                                    (S (S (S
                                                                    (S (S (S
                                                                    (S (S (S
                                                                    (S (S (S
                                                                    (S (S (S
                                                                    (S (S (S
                                                                    (S (S (S
                                                                    (S (S (S
                                                                    (S (S (S
                                                                    (S (S (S
                                                                    (S (S (S
                                                                    (S (S (S
                                                                    (S (S (S
                                                                    (S (S (S
                                                                    (S (S (S
                                                                    (S (S (S
                                                                    (S (S (S
                                                                    (S (S (S
                                                                    (S (S (S
                                                                    (S (S (S
                                                                    (S (S (S
                                                                    (S (S (S
                                                                    (S (S (S
                                                                    (S (S (S
                                                                    (S (S (S
                                                                    (S (S (S
                                                                    (S (S (S
                                                                    (S (S (S
                                                                    (S (S (S
                                                                    (S (S (S
                                                                    (S (S (S
                                                                    (S (S (S
                                                                    (S (S (S
                                                                    (S (S (S
                                                                    (S (S (S
                                                                    (S (S (S
                                                                    (S (S (S
                                                                    (S (S (S
                                                                    (S (S (S
                                                                    (S (S (S
                                                                    (S (S (S
                                                                    (S (S (S
                                                                    (S (S (S
                                                                    (S (S (S
                                                                    (S (S (S
                                                                    (S (S (S
                                                                    (S (S (S
                                                                    (S (S (S
                                                                    (S (S (S
                                                                    (S (S (S
                                                                    (S (S (S
                                                                    (S (S (S
                                                                    (S (S (S
                                                                    (S (S (S
                                                                    (S (S (S
                                                                    (S (S (S
                                                                    (S (S (S
                                                                    (S (S (S
                                                                    (S (S (S
                                                                    (S (S (S
                                                                    (S (S (S
                                                                    (S (S (S
                                                                    (S (S (S
                                                                    (S (S (S
                                                                    (S (S (S
                                                                    (S (S (S
                                                                    (S (S (S
                                                                    (S (S (S
                                                                    (S (S (S
                                                                    (S (S (S
                                                                    (S (S (S
                                                                    (S (S (S
                                                                    (S (S (S
                                                                    (S (S (S
                                                                    (S (S (S
                                                                    (S (S (S
                                                                    (S (S (S
                                                                    (S (S (S
                                                                    (S (S (S
                                                                    (S (S (S
                                                                    (S (S (S
                                                                    (S (S (S
                                                                    (S (S (S
                                                                    (S (S (S
                                                                    (S (S (S
                                                                    (S (S (S
                                                                    (S (S (S
                                                                    (S (S (S
                                                                    (S (S (S
                                                                    (S (S (S
                                                                    (S (S (S
                                                                    (S (S (S
                                                                    (S (S (S
                                                                    (S (S (S
                                                                    (S (S (S
                                                                    (S (S (S
                                                                    (S (S (S
                                                                    (S (S (S
                                                                    (S (S (S
                                                                    (S (S (S
                                                                    (S (S (S
                                                                    (S (S (S
                                                                    (S (S (S
                                                                    (S (S (S
                                                                    (S (S (S
                                                                    (S (S (S
                                                                    (S (S (S
                                                                    (S (S (S
                                                                    (S (S (S
                                                                    (S (S (S
                                                                    (S (S (S
                                                                    (S (S (S
                                                                    (S (S (S
                                                                    (S (S (S
                                                                    (S (S (S
                                                                    (S (S (S
                                                                    (S (S (S
                                                                    (S (S (S
                                                                    (S (S (S
                                                                    (S (S (S
                                                                    (S (S (S
                                                                    (S (S (S
                                                                    (S (S (S
                                                                    (S (S (S
                                                                    (S (S (S
                                                                    (S (S (S
                                                                    (S (S (S
                                                                    (S (S (S
                                                                    (S (S (S
                                                                    (S (S (S
                                                                    (S (S (S
                                                                    (S (S (S
                                                                    (S (S (S
                                                                    (S (S (S
                                                                    (S (S (S
                                                                    (S (S (S
                                                                    (S (S (S
                                                                    (S (S (S
                                                                    (S (S (S
                                                                    (S (S (S
                                                                    (S (S (S
                                                                    (S (S (S
                                                                    (S (S (S
                                                                    (S (S (S
                                                                    (S (S (S
                                                                    (S (S (S
                                                                    (S (S (S
                                                                    (S (S (S
                                                                    (S (S (S
                                                                    (S (S (S
                                                                    (S (S (S
                                                                    (S (S (S
                                                                    (S (S (S
                                                                    (S (S (S
                                                                    (S (S (S
                                                                    (S (S (S
                                                                    (S (S (S
                                                                    (S (S (S
                                                                    (S (S (S
                                                                    (S (S (S
                                                                    (S (S (S
                                                                    (S (S (S
                                                                    (S (S (S
                                                                    (S (S (S
                                                                    (S (S (S
                                                                    (S (S (S
                                                                    (S (S (S
                                                                    (S (S (S
                                                                    (S (S (S
                                                                    (S (S (S
                                                                    (S (S (S
                                                                    (S (S (S
                                                                    (S (S (S
                                                                    (S (S (S
                                                                    (S (S (S
                                                                    (S (S (S
                                                                    (S (S (S
                                                                    (S (S (S
                                                                    (S (S (S
                                                                    (S (S (S
                                                                    (S (S (S
                                                                    (S (S (S
                                                                    (S (S (S
                                                                    (S (S (S
                                                                    (S (S (S
                                                                    (S (S (S
                                                                    (S (S (S
                                                                    (S (S (S
                                                                    (S (S (S
                                                                    (S (S (S
                                                                    (S (S (S
                                                                    (S (S (S
                                                                    (S (S (S
                                                                    (S (S (S
                                                                    (S (S (S
                                                                    (S (S (S
                                                                    (S (S (S
                                                                    (S (S (S
                                                                    (S (S (S
                                                                    (S (S (S
                                                                    (S (S (S
                                                                    (S (S (S
                                                                    (S (S (S
                                                                    (S (S (S
                                                                    (S (S (S
                                                                    (S (S (S
                                                                    (S
                                                                    O))))))))))))))))))))))))))))))))))))))))))))))))))))))))))))))))))))))))))))))))))))))))))))))))))))))))))))))))))))))))))))))))))))))))))))))))))))))))))))))))))))))))))))))))))))))))))))))))))))))))))))))))))))))))))))))))))))))))))))))))))))))))))))))))))))))))))))))))))))))))))))))))))))))))))))))))))))))))))))))))))))))))))))))))))))))))))))))))))))))))))))))))))))))))))))))))))))))))))))))))))))))))))))))))))))))))))))))))))))))))))))))))))))))))))))))))))))))))))))))))))))))))))))))))))))))))))))))))))))))))))))))))))))))))))))))))))))))))))))))))))))))))))))))))))))))))))))))))))))))))))))))))))))))))))))))))))))))))))))))))))))))))))))))))))))))))))))))))))))))))))))))))))))))))))))))))))))))))))))))))))))))))))))))))))))))))))))))))))))))))))))))))))))))))))))))))))))))))))))))))))))))))))))))))))))))))))))))))))))))))))))))))))))))))))))))))))))))))))))))))))))))))))))))))))))))))))))))))))))))))))))))))))))))))))))))))))))))))))))))))))))))))))))))))))))))))))))))))))))))))))))))))))))))))))))))))
                                                                    (sub c1
                                                                    c0))
                                                                   then None
                                                                   else 
                                                                    let (
                                                                    r3, c3) =
                                                                    skip_sp
                                                                    r2
                                                                    (add c2
                                                                    (S (S O)))
                                                                    in
                                                                    (
                                                                    match 
                                                                    flow_node
                                                                    f r3 c3 with
                                                                    | Some p16 ->
                                                                    let (
                                                                    p17, c4) =
                                                                    p16
                                                                    in
                                                                    let (
                                                                    v, r4) =
                                                                    p17
                                                                    in
                                                                    let (
                                                                    r5, c5) =
                                                                    skip_sp
                                                                    r4 c4
                                                                    in
                                                                    (
                                                                    match r5 with
                                                                    | [] ->
                                                                    None
                                                                    | n3 :: r6 ->
                                                                    (match n3 with
                                                                    | N0 ->
                                                                    None
                                                                    | Npos p18 ->
                                                                    (match p18 with
                                                                    | XI p19 ->
                                                                    (match p19 with
                                                                    | XO p20 ->
                                                                    (match p20 with
                                                                    | XI p21 ->
                                                                    (match p21 with
                                                                    | XI p22 ->
                                                                    (match p22 with
                                                                    | XI p23 ->
                                                                    (match p23 with
                                                                    | XI p24 ->
                                                                    (match p24 with
                                                                    | XH ->
                                                                    Some
                                                                    (((build_map
                                                                    (rev
                                                                    (((unnums
                                                                    k),
                                                                    v) :: acc))),
                                                                    r6), (S
                                                                    c5))
                                                                    | _ ->
                                                                    None)
                                                                    | _ ->
                                                                    None)
                                                                    | _ ->
                                                                    None)
                                                                    | _ ->
                                                                    None)
                                                                    | _ ->
                                                                    None)
                                                                    | _ ->
                                                                    None)
                                                                    | XO p19 ->
                                                                    (match p19 with
                                                                    | XO p20 ->
                                                                    (match p20 with
                                                                    | XI p21 ->
                                                                    (match p21 with
                                                                    | XI p22 ->
                                                                    (match p22 with
                                                                    | XO p23 ->
                                                                    (match p23 with
                                                                    | XH ->
                                                                    let (
                                                                    r7, c7) =
                                                                    skip_sp
                                                                    r6 (S c5)
                                                                    in
                                                                    flow_map_items
                                                                    f r7 c7
                                                                    (((unnums
                                                                    k),
                                                                    v) :: acc)
                                                                    | _ ->
                                                                    None)
                                                                    | _ ->
                                                                    None)
                                                                    | _ ->
                                                                    None)
                                                                    | _ ->
                                                                    None)
                                                                    | _ ->
                                                                    None)
                                                                    | XH ->
                                                                    None)))
                                                                    | None ->
                                                                    None)
                                                                 | _ -> None)
                                                              | _ -> None)
                                                           | _ -> None)
                                                        | _ -> None)
                                                     | _ -> None)
                                                  | _ -> None)))
                                         | _ -> None)
                                      | _ -> None)
                                   | _ -> None)
                                | _ -> None)
                             | _ -> None)
                          | _ -> None)))
                 | None -> None))
           | _ ->
             let p0 = (l, c) in
             let explicit = false in
             let (l1, c0) = p0 in
             (match flow_scalar l1 c0 with
              | Some p1 ->
                let (p2, c1) = p1 in
                let (k, r) = p2 in
                let (r1, c2) = skip_sp r c1 in
                (match r1 with
                 | [] -> None
                 | n1 :: l2 ->
                   (match n1 with
                    | N0 -> None
                    | Npos p3 ->
                      (match p3 with
                       | XO p4 ->
                         (match p4 with
                          | XI p5 ->
                            (match p5 with
                             | XO p6 ->
                               (match p6 with
                                | XI p7 ->
                                  (match p7 with
                                   | XI p8 ->
                                     (match p8 with
                                      | XH ->
                                        (match l2 with
                                         | [] -> None
                                         | n2 :: r2 ->
                                           (match n2 with
                                            | N0 -> None
                                            | Npos p9 ->
                                              (match p9 with
                                               | XO p10 ->
                                                 (match p10 with
                                                  | XO p11 ->
                                                    (match p11 with
                                                     | XO p12 ->
                                                       (match p12 with
                                                        | XO p13 ->
                                                          (match p13 with
                                                           | XO p14 ->
                                                             (match p14 with
                                                              | XH ->
                                                                if (&&)
                                                                    (negb
                                                                    explicit)
                                                                    (Nat.ltb
                                                                    (S (S (S
                                                                    (S (S (S
                                                                    (S (S (S
                                                                    (S (S (S
                                                                    (S (S (S
                                                                    (S (S (S
                                                                    (S (S (S
                                                                    (S (S (S
                                                                    (S (S (S
                                                                    (S (S (S
                                                                    (S (S (S
                                                                    (S (S (S
                                                                    (S (S (S
                                                                    (S (S (S
                                                                    (S (S (S
                                                                    (S (S (S
                                                                    (S (S (S
                                                                    (S (S (S
                                                                    (S (S (S
                                                                    (S (S (S
                                                                    (S (S (S
                                                                    (S (S (S
                                                                    (S (S (S
                                                                    (S (S (S
                                                                    (S (S (S
                                                                    (S (S (S
                                                                    (S (S (S
                                                                    (S (S (S
                                                                    (S (S (S
                                                                    (S (S (S
                                                                    (S (S (S
                                                                    (S (S (S
                                                                    (S (S (S
                                                                    (S (S (S
                                                                    (S (S (S
                                                                    (S (S (S
                                                                    (S (S (S
                                                                    (S (S (S
                                                                    (S (S (S
                                                                    (S (S (S
                                                                    (S (S (S
                                                                    (S (S (S
                                                                    (S (S (S
                                                                    (S (S (S
                                                                    (S (S (S
                                                                    (S (S (S
                                                                    (S (S (S
                                                                    (S (S (S
                                                                    (S (S (S
                                                                    (S (S (S
                                                                    (S (S (S
                                                                    (S (S (S
                                                                    (S (S (S
                                                                    (S (S (S
                                                                    (S (S (S
                                                                    (S (S (S
                                                                    (S (S (S
                                                                    (S (S (S
                                                                    (S (S (S
                                                                    (S (S (S
                                                                    (S (S (S
                                                                    (S (S (S
                                                                    (S (S (S
                                                                    (S (S (S
                                                                    (S (S (S
                                                                    (S (S (S
                                                                    (S (S (S
                                                                    (S (S (S
                                                                    (S (S (S
                                                                    (S (S (S
                                                                    (S (S (S
                                                                    (S (S (S
                                                                    (S (S (S
                                                                    (S (S (S
                                                                    (S (S (S
                                                                    (S (S (S
                                                                    (S (S (S
                                                                    (S (S (S
                                                                    (S (S (S
                                                                    (S (S (S
                                                                    (S (S (S
                                                                    (S (S (S
                                                                    (S (S (S
                                                                    (S (S (S
                                                                    (S (S (S
                                                                    (S (S (S
                                                                    (S (S (S
                                                                    (S (S (S
                                                                    (S (S (S
                                                                    (S (S (S
                                                                    (S (S (S
                                                                    (S (S (S
                                                                    (S (S (S
                                                                    (S (S (S
                                                                    (S (S (S
                                                                    (S (S (S
                                                                    (S (S (S
                                                                    (S (S (S
                                                                    (S (S (S
                                                                    (S (S (S
                                                                    (S (S (S
                                                                    (S (S (S
                                                                    (S (S (S
                                                                    (S (S (S
                                                                    (S (S (S
                                                                    (S (S (S
                                                                    (S (S (S
                                                                    (S (S (S
                                                                    (S (S (S
                                                                    (S (S (S
                                                                    (S (S (S
                                                                    (S (S (S
                                                                    (S (S (S
                                                                    (S (S (S
                                                                    (S (S (S
                                                                    (S (S (S
                                                                    (S (S (S
                                                                    (S (S (S
                                                                    (S (S (S
                                                                    (S (S (S
                                                                    (S (S (S
                                                                    (S (S (S
                                                                    (S (S (S
                                                                    (S (S (S
                                                                    (S (S (S
                                                                    (S (S (S
                                                                    (S (S (S
                                                                    (S (S (S
                                                                    (S (S (S
                                                                    (S (S (S
                                                                    (S (S (S
                                                                    (S (S (S
                                                                    (S (S (S
                                                                    (S (S (S
                                                                    (S (S (S
                                                                    (S (S (S
                                                                    (S (S (S
                                                                    (S (S (S
                                                                    (S (S (S
                                                                    (S (S (S
                                                                    (S (S (S
                                                                    (S (S (S
                                                                    (S (S (S
                                                                    (S (S (S
                                                                    (S (S (S
                                                                    (S (S (S
                                                                    (S (S (S
                                                                    (S (S (S
                                                                    (S (S (S
                                                                    (S (S (S
                                                                    (S (S (S
                                                                    (S (S (S
                                                                    (S (S (S
                                                                    (S (S (S
                                                                    (S (S (S
                                                                    (S (S (S
                                                                    (S (S (S
                                                                    (S (S (S
                                                                    (S (S (S
                                                                    (S (S (S
                                                                    (S (S (S
                                                                    (S (S (S
                                                                    (S (S (S
                                                                    (S (S (S
                                                                    (S (S (S
                                                                    (S (S (S
                                                                    (S (S (S
                                                                    (S (S (S
                                                                    (S (S (S
                                                                    (S (S (S
                                                                    (S (S (S
                                                                    (S (S (S
                                                                    (S (S (S
                                                                    (S (S (S
                                                                    (S (S (S
                                                                    (S (S (S
                                                                    (S (S (S
                                                                    (S (S (S
                                                                    (S (S (S
                                                                    (S (S (S
                                                                    (S (S (S
                                                                    (S (S (S
                                                                    (S (S (S
                                                                    (S (S (S
                                                                    (S (S (S
                                                                    (S (S (S
                                                                    (S (S (S
                                                                    (S (S (S
                                                                    (S (S (S
                                                                    (S (S (S
                                                                    (S (S (S
                                                                    (S (S (S
                                                                    (S (S (S
                                                                    (S (S (S
                                                                    (S (S (S
                                                                    (S (S (S
                                                                    (S (S (S
                                                                    (S (S (S
                                                                    (S (S (S
                                                                    (S (S (S
                                                                    (S (S (S
                                                                    (S (S (S
                                                                    (S (S (S
                                                                    (S (S (S
                                                                    (S (S (S
                                                                    (S (S (S
                                                                    (S (S (S
                                                                    (S (S (S
                                                                    (S (S (S
                                                                    (S (S (S
                                                                    (S (S (S
                                                                    (S (S (S
                                                                    (S (S (S
                                                                    (S (S (S
                                                                    (S (S (S
                                                                    (S (S (S
                                                                    (S (S (S
                                                                    (S (S (S
                                                                    (S (S (S
                                                                    (S (S (S
                                                                    (S (S (S
                                                                    (S (S (S
                                                                    (S (S (S
                                                                    (S (S (S
                                                                    (S (S (S
                                                                    (S (S (S
                                                                    (S (S (S
                                                                    (S (S (S
                                                                    (S (S (S
                                                                    (S (S (S
                                                                    (S (S (S
                                                                    (S (S (S
                                                                    (S (S (S
                                                                    (S (S (S
                                                                    (S (S (S
                                                                    (S (S (S
                                                                    (S (S (S
                                                                    (S (S (S
                                                                    (S (S (S
                                                                    (S (S (S
                                                                    (S (S (S
                                                                    (S (S (S
                                                                    (S (S (S
                                                                    (S (S (S
                                                                    (S (S (S
                                                                    (S (S (S
                                                                    (S (S (S
                                                                    (S (S (S
                                                                    (S (S (S
                                                                    (S (S (S
                                                                    (S (S (S
                                                                    (S (S (S
                                                                    (S (S (S
                                                                    (S (S (S
                                                                    (S (S (S
                                                                    (S (S (S
                                                                    (S (S (S
                                                                    (S (S (S
                                                                    (S (S (S
                                                                    (S (S (S
                                                                    (S (S (S
                                                                    (S (S (S
                                                                    (S (S (S
                                                                    (S (S (S
                                                                    (S (S (S
                                                                    (S (S (S
                                                                    (S (S (S
                                                                    (S (S (S
                                                                    (S (S (S
                                                                    (S (S (S
                                                                    (S (S (S
                                                                    (S (S (S
                                                                    (S (S (S
                                                                    (S (S (S
                                                                    (S (S (S
                                                                    (S (S (S
                                                                    (S (S (S
                                                                    (S (S (S
                                                                    (S (S (S
                                                                    (S (S (S
                                                                    (S (S (S
                                                                    (S (S (S
                                                                    (S (S (S
                                                                    (S (S (S
                                                                    (S (S (S
                                                                    (S (S (S
                                                                    (S (S (S
                                                                    (S (S (S
                                                                    (S (S (S
                                                                    (S (S (S
                                                                    (S (S (S
                                                                    (S (S (S
                                                                    (S (S (S
                                                                    (S (S (S
                                                                    (S (S (S
                                                                    (S (S (S
                                                                    (S (S (S
                                                                    (S (S (S
                                                                    (S (S (S
                                                                    (S (S (S
                                                                    (S (S (S
                                                                    (S (S (S
                                                                    (S (S (S
                                                                    (S (S (S
                                                                    (S (S (S
                                                                    (S (S (S
                                                                    (S (S (S
                                                                    (S (S (S
                                                                    (S (S (S
                                                                    (S (S (S
                                                                    (S (S (S
                                                                    (S (S (S
                                                                    (S (S (S
                                                                    (S (S (S
                                                                    (S (S (S
                                                                    (S (S (S
                                                                    (S (S (S
                                                                    (S (S (S
                                                                    (S (S (S
                                                                    (S (S (S
                                                                    (S (S (S
                                                                    (S (S (S
                                                                    (S (S (S
                                                                    (S (S (S
                                                                    (S (S (S
                                                                    (S (S (S
                                                                    (S (S (S
                                                                    (S (S (S
                                                                    (S (S (S
                                                                    (S (S (S
                                                                    (S (S (S
                                                                    (S (S (S
                                                                    (S (S (S
                                                                    (S (S (S
                                                                    (S (S (S
                                                                    (S (S (S
                                                                    (S (S (S
                                                                    (S (S (S
                                                                    (S (S (S
                                                                    (S (S (S
                                                                    (S (S (S
                                                                    (S
                                                                    O))))))))))))))))))))))))))))))))))))))))))))))))))))))))))))))))))))))))))))))))))))))))))))))))))))))))))))))))))))))))))))))))))))))))))))))))))))))))))))))))))))))))))))))))))))))))))))))))))))))))))))))))))))))))))))))))))))))))))))))))))))))))))))))))))))))))))))))))))))))))))))))))))))))))))))))))))))))))))))))))))))))))))))))))))))))))))))))))))))))))))))))))))))))))))))))))))))))))))))))))))))))))))))))))))))))))))))))))))))))))))))))))))))))))))))))))))))))))))))))))))))))))))))))))))))))))))))))))))))))))))))))))))))))))))))))))))))))))))))))))))))))))))))))))))))))))))))))))))))))))))))))))))))))))))))))))))))))))))))))))))))))))))))))))))))))))))))))))))))))))))))))))))))))))))))))))))))))))))))))))))))))))))))))))))))))))))))))))))))))))))))))))))))))))))))))))))))))))))))))))))))))))))))))))))))))))))))))))))))))))))))))))))))))))))))))))))))))))))))))))))))))))))))))))))))))))))))))))))))))))))))))))))))))))))))))))))))))))))))))))))))))))))))))))))))))))))))))))))))))))))))))))))))))))))))))))
                                                                    (sub c1
                                                                    c0))
                                                                then None
                                                                else 
                                                                  let (
                                                                    r3, c3) =
                                                                    skip_sp
                                                                    r2
                                                                    (add c2
                                                                    (S (S O)))
                                                                  in
                                                                  (match 
                                                                   flow_node
                                                                    f r3 c3 with
                                                                   | Some p15 ->
                                                                    let (
                                                                    p16, c4) =
                                                                    p15
                                                                    in
                                                                    let (
                                                                    v, r4) =
                                                                    p16
                                                                    in
                                                                    let (
                                                                    r5, c5) =
                                                                    skip_sp
                                                                    r4 c4
                                                                    in
                                                                    (
                                                                    match r5 with
                                                                    | [] ->
                                                                    None
                                                                    | n3 :: r6 ->
                                                                    (match n3 with
                                                                    | N0 ->
                                                                    None
                                                                    | Npos p17 ->
                                                                    (match p17 with
                                                                    | XI p18 ->
                                                                    (match p18 with
                                                                    | XO p19 ->
                                                                    (match p19 with
                                                                    | XI p20 ->
                                                                    (match p20 with
                                                                    | XI p21 ->
                                                                    (match p21 with
                                                                    | XI p22 ->
                                                                    (match p22 with
                                                                    | XI p23 ->
                                                                    (match p23 with
                                                                    | XH ->
                                                                    Some
                                                                    (((build_map
                                                                    (rev
                                                                    (((unnums
                                                                    k),
                                                                    v) :: acc))),
                                                                    r6), (S
                                                                    c5))
                                                                    | _ ->
                                                                    None)
                                                                    | _ ->
                                                                    None)
                                                                    | _ ->
                                                                    None)
                                                                    | _ ->
                                                                    None)
                                                                    | _ ->
                                                                    None)
                                                                    | _ ->
                                                                    None)
                                                                    | XO p18 ->
                                                                    (match p18 with
                                                                    | XO p19 ->
                                                                    (match p19 with
                                                                    | XI p20 ->
                                                                    (match p20 with
                                                                    | XI p21 ->
                                                                    (match p21 with
                                                                    | XO p22 ->
                                                                    (match p22 with
                                                                    | XH ->
                                                                    let (
                                                                    r7, c7) =
                                                                    skip_sp
                                                                    r6 (S c5)
                                                                    in
                                                                    flow_map_items
                                                                    f r7 c7
                                                                    (((unnums
                                                                    k),
                                                                    v) :: acc)
                                                                    | _ ->
                                                                    None)
                                                                    | _ ->
                                                                    None)
                                                                    | _ ->
                                                                    None)
                                                                    | _ ->
                                                                    None)
                                                                    | _ ->
                                                                    None)
                                                                    | XH ->
                                                                    None)))
                                                                   | None ->
                                                                    None)
                                                              | _ -> None)
                                                           | _ -> None)
                                                        | _ -> None)
                                                     | _ -> None)
                                                  | _ -> None)
                                               | _ -> None)))
                                      | _ -> None)
                                   | _ -> None)
                                | _ -> None)
                             | _ -> None)
                          | _ -> None)
                       | _ -> None)))
              | None -> None))))

(** val key_scalar : octs -> nat -> ((octs * octs) * nat) option **)

let key_scalar =
  flow_scalar

(** val is_value_mark : octs -> bool **)

let is_value_mark = function
| [] -> false
| n0 :: r ->
  (match n0 with
   | N0 -> false
   | Npos p ->
     (match p with
      | XO p0 ->
        (match p0 with
         | XI p1 ->
           (match p1 with
            | XO p2 ->
              (match p2 with
               | XI p3 ->
                 (match p3 with
                  | XI p4 ->
                    (match p4 with
                     | XH -> starts_blank_or_end r
                     | _ -> false)
                  | _ -> false)
               | _ -> false)
            | _ -> false)
         | _ -> false)
      | _ -> false))

(** val is_seq_mark : octs -> bool **)

let is_seq_mark = function
| [] -> false
| n0 :: r ->
  (match n0 with
   | N0 -> false
   | Npos p ->
     (match p with
      | XI p0 ->
        (match p0 with
         | XO p1 ->
           (match p1 with
            | XI p2 ->
              (match p2 with
               | XI p3 ->
                 (match p3 with
                  | XO p4 ->
                    (match p4 with
                     | XH -> starts_blank_or_end r
                     | _ -> false)
                  | _ -> false)
               | _ -> false)
            | _ -> false)
         | _ -> false)
      | _ -> false))

(** val is_longkey_mark : octs -> bool **)

let is_longkey_mark = function
| [] -> false
| n0 :: l0 ->
  (match n0 with
   | N0 -> false
   | Npos p ->
     (match p with
      | XI p0 ->
        (match p0 with
         | XI p1 ->
           (match p1 with
            | XI p2 ->
              (match p2 with
               | XI p3 ->
                 (match p3 with
                  | XI p4 ->
                    (match p4 with
                     | XH ->
                       (match l0 with
                        | [] -> false
                        | n1 :: _ ->
                          (match n1 with
                           | N0 -> false
                           | Npos p5 ->
                             (match p5 with
                              | XO p6 ->
                                (match p6 with
                                 | XO p7 ->
                                   (match p7 with
                                    | XO p8 ->
                                      (match p8 with
                                       | XO p9 ->
                                         (match p9 with
                                          | XO p10 ->
                                            (match p10 with
                                             | XH -> true
                                             | _ -> false)
                                          | _ -> false)
                                       | _ -> false)
                                    | _ -> false)
                                 | _ -> false)
                              | _ -> false)))
                     | _ -> false)
                  | _ -> false)
               | _ -> false)
            | _ -> false)
         | _ -> false)
      | _ -> false))

(** val block_node :
    nat -> octs -> nat -> nat -> bool -> ((item * octs) * nat) option **)

let rec block_node fuel l c minlit allow_key =
  match fuel with
  | O -> None
  | S f ->
    (match l with
     | [] -> None
     | ch :: r ->
       if (||) (N.eqb ch (Npos (XI (XI (XO (XI (XI (XO XH))))))))
            (N.eqb ch (Npos (XI (XI (XO (XI (XI (XI XH))))))))
       then (match flow_node (S (length l)) l c with
             | Some p ->
               let (p0, c1) = p in
               let (x, r1) = p0 in
               (match to_ls r1 c1 with
                | Some p1 -> let (r2, c2) = p1 in Some ((x, r2), c2)
                | None -> None)
             | None -> None)
       else if N.eqb ch (Npos (XO (XO (XI (XI (XI (XI XH)))))))
            then (match lit_load r minlit with
                  | Some p ->
                    let (p0, c1) = p in
                    let (s, r1) = p0 in Some (((Scalar (unnums s)), r1), c1)
                  | None -> None)
            else if is_seq_mark l
                 then block_seq f l c c []
                 else if (&&) (is_longkey_mark l) allow_key
                      then block_map f l c c []
                      else (match key_scalar l c with
                            | Some p ->
                              let (p0, c1) = p in
                              let (s, r1) = p0 in
                              if (&&) (is_value_mark r1) allow_key
                              then block_map f l c c []
                              else (match to_ls r1 c1 with
                                    | Some p1 ->
                                      let (r2, c2) = p1 in
                                      Some (((Scalar (unnums s)), r2), c2)
                                    | None -> None)
                            | None -> None))

(** val block_seq :
    nat -> octs -> nat -> nat -> item list -> ((item * octs) * nat) option **)

and block_seq fuel l c m acc =
  match fuel with
  | O -> None
  | S f ->
    (match l with
     | [] -> None
     | n0 :: r ->
       (match n0 with
        | N0 -> None
        | Npos p ->
          (match p with
           | XI p0 ->
             (match p0 with
              | XO p1 ->
                (match p1 with
                 | XI p2 ->
                   (match p2 with
                    | XI p3 ->
                      (match p3 with
                       | XO p4 ->
                         (match p4 with
                          | XH ->
                            let elem =
                              match r with
                              | [] ->
                                (match to_ls r (S c) with
                                 | Some p5 ->
                                   let (r1, c1) = p5 in
                                   (match r1 with
                                    | [] -> Some ((Null, []), c1)
                                    | _ :: _ ->
                                      if Nat.ltb m c1
                                      then block_node f r1 c1 (S m) true
                                      else Some ((Null, r1), c1))
                                 | None -> None)
                              | n1 :: _ ->
                                (match n1 with
                                 | N0 ->
                                   (match to_ls r (S c) with
                                    | Some p5 ->
                                      let (r1, c1) = p5 in
                                      (match r1 with
                                       | [] -> Some ((Null, []), c1)
                                       | _ :: _ ->
                                         if Nat.ltb m c1
                                         then block_node f r1 c1 (S m) true
                                         else Some ((Null, r1), c1))
                                    | None -> None)
                                 | Npos p5 ->
                                   (match p5 with
                                    | XO p6 ->
                                      (match p6 with
                                       | XO p7 ->
                                         (match p7 with
                                          | XO p8 ->
                                            (match p8 with
                                             | XO p9 ->
                                               (match p9 with
                                                | XO p10 ->
                                                  (match p10 with
                                                   | XH ->
                                                     let (r1, c1) =
                                                       skip_sp r (S c)
                                                     in
                                                     (match r1 with
                                                      | [] ->
                                                        Some ((Null, []), c1)
                                                      | _ :: _ ->
                                                        block_node f r1 c1 (S
                                                          m) true)
                                                   | _ ->
                                                     (match to_ls r (S c) with
                                                      | Some p11 ->
                                                        let (r1, c1) = p11 in
                                                        (match r1 with
                                                         | [] ->
                                                           Some ((Null, []),
                                                             c1)
                                                         | _ :: _ ->
                                                           if Nat.ltb m c1
                                                           then block_node f
                                                                  r1 c1 (S m)
                                                                  true
                                                           else Some ((Null,
                                                                  r1), c1))
                                                      | None -> None))
                                                | _ ->
                                                  (match to_ls r (S c) with
                                                   | Some p10 ->
                                                     let (r1, c1) = p10 in
                                                     (match r1 with
                                                      | [] ->
                                                        Some ((Null, []), c1)
                                                      | _ :: _ ->
                                                        if Nat.ltb m c1
                                                        then block_node f r1
                                                               c1 (S m) true
                                                        else Some ((Null,
                                                               r1), c1))
                                                   | None -> None))
                                             | _ ->
                                               (match to_ls r (S c) with
                                                | Some p9 ->
                                                  let (r1, c1) = p9 in
                                                  (match r1 with
                                                   | [] ->
                                                     Some ((Null, []), c1)
                                                   | _ :: _ ->
                                                     if Nat.ltb m c1
                                                     then block_node f r1 c1
                                                            (S m) true
                                                     else Some ((Null, r1),
                                                            c1))
                                                | None -> None))
                                          | _ ->
                                            (match to_ls r (S c) with
                                             | Some p8 ->
                                               let (r1, c1) = p8 in
                                               (match r1 with
                                                | [] -> Some ((Null, []), c1)
                                                | _ :: _ ->
                                                  if Nat.ltb m c1
                                                  then block_node f r1 c1 (S
                                                         m) true
                                                  else Some ((Null, r1), c1))
                                             | None -> None))
                                       | _ ->
                                         (match to_ls r (S c) with
                                          | Some p7 ->
                                            let (r1, c1) = p7 in
                                            (match r1 with
                                             | [] -> Some ((Null, []), c1)
                                             | _ :: _ ->
                                               if Nat.ltb m c1
                                               then block_node f r1 c1 (S m)
                                                      true
                                               else Some ((Null, r1), c1))
                                          | None -> None))
                                    | _ ->
                                      (match to_ls r (S c) with
                                       | Some p6 ->
                                         let (r1, c1) = p6 in
                                         (match r1 with
                                          | [] -> Some ((Null, []), c1)
                                          | _ :: _ ->
                                            if Nat.ltb m c1
                                            then block_node f r1 c1 (S m) true
                                            else Some ((Null, r1), c1))
                                       | None -> None)))
                            in
                            (match elem with
                             | Some p5 ->
                               let (p6, c2) = p5 in
                               let (x, r2) = p6 in
                               (match r2 with
                                | [] ->
                                  Some (((Lst (rev (x :: acc))), []), c2)
                                | _ :: _ ->
                                  if Nat.ltb c2 m
                                  then Some (((Lst (rev (x :: acc))), r2), c2)
                                  else if (&&) (Nat.eqb c2 m) (is_seq_mark r2)
                                       then block_seq f r2 c2 m (x :: acc)
                                       else None)
                             | None -> None)
                          | _ -> None)
                       | _ -> None)
                    | _ -> None)
                 | _ -> None)
              | _ -> None)
           | _ -> None)))

(** val block_map :
    nat -> octs -> nat -> nat -> (bytes * item) list -> ((item * octs) * nat)
    option **)

and block_map fuel l c m acc =
  match fuel with
  | O -> None
  | S f ->
    let entry =
      if is_longkey_mark l
      then let (r1, c1) = skip_sp (skipn (S O) l) (S c) in
           (match block_node f r1 c1 (S m) false with
            | Some p ->
              let (p0, c2) = p in
              let (i, r2) = p0 in
              (match i with
               | Null -> None
               | Scalar k ->
                 if (&&) (Nat.eqb c2 m) (is_value_mark r2)
                 then (match skipn (S O) r2 with
                       | [] ->
                         (match to_ls [] (S c2) with
                          | Some p1 ->
                            let (r4, c4) = p1 in
                            (match r4 with
                             | [] -> Some (((k, Null), []), c4)
                             | _ :: _ ->
                               if Nat.ltb m c4
                               then (match block_node f r4 c4 (S m) true with
                                     | Some p2 ->
                                       let (p3, c5) = p2 in
                                       let (v, r5) = p3 in
                                       Some (((k, v), r5), c5)
                                     | None -> None)
                               else Some (((k, Null), r4), c4))
                          | None -> None)
                       | n0 :: l0 ->
                         (match n0 with
                          | N0 ->
                            (match to_ls (N0 :: l0) (S c2) with
                             | Some p1 ->
                               let (r4, c4) = p1 in
                               (match r4 with
                                | [] -> Some (((k, Null), []), c4)
                                | _ :: _ ->
                                  if Nat.ltb m c4
                                  then (match block_node f r4 c4 (S m) true with
                                        | Some p2 ->
                                          let (p3, c5) = p2 in
                                          let (v, r5) = p3 in
                                          Some (((k, v), r5), c5)
                                        | None -> None)
                                  else Some (((k, Null), r4), c4))
                             | None -> None)
                          | Npos p1 ->
                            (match p1 with
                             | XO p2 ->
                               (match p2 with
                                | XO p3 ->
                                  (match p3 with
                                   | XO p4 ->
                                     (match p4 with
                                      | XO p5 ->
                                        (match p5 with
                                         | XO p6 ->
                                           (match p6 with
                                            | XH ->
                                              let (r4, c4) =
                                                skip_sp ((Npos (XO (XO (XO
                                                  (XO (XO XH)))))) :: l0) (S
                                                  c2)
                                              in
                                              (match r4 with
                                               | [] ->
                                                 Some (((k, Null), []), c4)
                                               | _ :: _ ->
                                                 (match block_node f r4 c4 (S
                                                          m) true with
                                                  | Some p7 ->
                                                    let (p8, c5) = p7 in
                                                    let (v, r5) = p8 in
                                                    Some (((k, v), r5), c5)
                                                  | None -> None))
                                            | x ->
                                              (match to_ls ((Npos (XO (XO (XO
                                                       (XO (XO x)))))) :: l0)
                                                       (S c2) with
                                               | Some p7 ->
                                                 let (r4, c4) = p7 in
                                                 (match r4 with
                                                  | [] ->
                                                    Some (((k, Null), []), c4)
                                                  | _ :: _ ->
                                                    if Nat.ltb m c4
                                                    then (match block_node f
                                                                  r4 c4 (S m)
                                                                  true with
                                                          | Some p8 ->
                                                            let (p9, c5) = p8
                                                            in
                                                            let (v, r5) = p9
                                                            in
                                                            Some (((k, v),
                                                            r5), c5)
                                                          | None -> None)
                                                    else Some (((k, Null),
                                                           r4), c4))
                                               | None -> None))
                                         | x ->
                                           (match to_ls ((Npos (XO (XO (XO
                                                    (XO x))))) :: l0) (S c2) with
                                            | Some p6 ->
                                              let (r4, c4) = p6 in
                                              (match r4 with
                                               | [] ->
                                                 Some (((k, Null), []), c4)
                                               | _ :: _ ->
                                                 if Nat.ltb m c4
                                                 then (match block_node f r4
                                                               c4 (S m) true with
                                                       | Some p7 ->
                                                         let (p8, c5) = p7 in
                                                         let (v, r5) = p8 in
                                                         Some (((k, v), r5),
                                                         c5)
                                                       | None -> None)
                                                 else Some (((k, Null), r4),
                                                        c4))
                                            | None -> None))
                                      | x ->
                                        (match to_ls ((Npos (XO (XO (XO
                                                 x)))) :: l0) (S c2) with
                                         | Some p5 ->
                                           let (r4, c4) = p5 in
                                           (match r4 with
                                            | [] -> Some (((k, Null), []), c4)
                                            | _ :: _ ->
                                              if Nat.ltb m c4
                                              then (match block_node f r4 c4
                                                            (S m) true with
                                                    | Some p6 ->
                                                      let (p7, c5) = p6 in
                                                      let (v, r5) = p7 in
                                                      Some (((k, v), r5), c5)
                                                    | None -> None)
                                              else Some (((k, Null), r4), c4))
                                         | None -> None))
                                   | x ->
                                     (match to_ls ((Npos (XO (XO x))) :: l0)
                                              (S c2) with
                                      | Some p4 ->
                                        let (r4, c4) = p4 in
                                        (match r4 with
                                         | [] -> Some (((k, Null), []), c4)
                                         | _ :: _ ->
                                           if Nat.ltb m c4
                                           then (match block_node f r4 c4 (S
                                                         m) true with
                                                 | Some p5 ->
                                                   let (p6, c5) = p5 in
                                                   let (v, r5) = p6 in
                                                   Some (((k, v), r5), c5)
                                                 | None -> None)
                                           else Some (((k, Null), r4), c4))
                                      | None -> None))
                                | x ->
                                  (match to_ls ((Npos (XO x)) :: l0) (S c2) with
                                   | Some p3 ->
                                     let (r4, c4) = p3 in
                                     (match r4 with
                                      | [] -> Some (((k, Null), []), c4)
                                      | _ :: _ ->
                                        if Nat.ltb m c4
                                        then (match block_node f r4 c4 (S m)
                                                      true with
                                              | Some p4 ->
                                                let (p5, c5) = p4 in
                                                let (v, r5) = p5 in
                                                Some (((k, v), r5), c5)
                                              | None -> None)
                                        else Some (((k, Null), r4), c4))
                                   | None -> None))
                             | x ->
                               (match to_ls ((Npos x) :: l0) (S c2) with
                                | Some p2 ->
                                  let (r4, c4) = p2 in
                                  (match r4 with
                                   | [] -> Some (((k, Null), []), c4)
                                   | _ :: _ ->
                                     if Nat.ltb m c4
                                     then (match block_node f r4 c4 (S m) true with
                                           | Some p3 ->
                                             let (p4, c5) = p3 in
                                             let (v, r5) = p4 in
                                             Some (((k, v), r5), c5)
                                           | None -> None)
                                     else Some (((k, Null), r4), c4))
                                | None -> None))))
                 else None
               | _ -> None)
            | None -> None)
      else (match key_scalar l c with
            | Some p ->
              let (p0, c1) = p in
              let (k, r1) = p0 in
              if Nat.ltb (S (S (S (S (S (S (S (S (S (S (S (S (S (S (S (S (S
                   (S (S (S (S (S (S (S (S (S (S (S (S (S (S (S (S (S (S (S
                   (S (S (S (S (S (S (S (S (S (S (S (S (S (S (S (S (S (S (S
                   (S (S (S (S (S (S (S (S (S (S (S (S (S (S (S (S (S (S (S
                   (S (S (S (S (S (S (S (S (S (S (S (S (S (S (S (S (S (S (S
                   (S (S (S (S (S (S (S (S (S (S (S (S (S (S (S (S (S (S (S
                   (S (S (S (S (S (S (S (S (S (S (S (S (S (S (S (S (S (S (S
                   (S (S (S (S (S (S (S (S (S (S (S (S (S (S (S (S (S (S (S
                   (S (S (S (S (S (S (S (S (S (S (S (S (S (S (S (S (S (S (S
                   (S (S (S (S (S (S (S (S (S (S (S (S (S (S (S (S (S (S (S
                   (S (S (S (S (S (S (S (S (S (S (S (S (S (S (S (S (S (S (S
                   (S (S (S (S (S (S (S (S (S (S (S (S (S (S (S (S (S (S (S
                   (S (S (S (S (S (S (S (S (S (S (S (S (S (S (S (S (S (S (S
                   (S (S (S (S (S (S (S (S (S (S (S (S (S (S (S (S (S (S (S
                   (S (S (S (S (S (S (S (S (S (S (S (S (S (S (S (S (S (S (S
                   (S (S (S (S (S (S (S (S (S (S (S (S (S (S (S (S (S (S (S
                   (S (S (S (S (S (S (S (S (S (S (S (S (S (S (S (S (S (S (S
                   (S (S (S (S (S (S (S (S (S (S (S (S (S (S (S (S (S (S (S
                   (S (S (S (S (S (S (S (S (S (S (S (S (S (S (S (S (S (S (S
                   (S (S (S (S (S (S (S (S (S (S (S (S (S (S (S (S (S (S (S
                   (S (S (S (S (S (S (S (S (S (S (S (S (S (S (S (S (S (S (S
                   (S (S (S (S (S (S (S (S (S (S (S (S (S (S (S (S (S (S (S
                   (S (S (S (S (S (S (S (S (S (S (S (S (S (S (S (S (S (S (S
                   (S (S (S (S (S (S (S (S (S (S (S (S (S (S (S (S (S (S (S
                   (S (S (S (S (S (S (S (S (S (S (S (S (S (S (S (S (S (S (S
                   (S (S (S (S (S (S (S (S (S (S (S (S (S (S (S (S (S (S (S
                   (S (S (S (S (S (S (S (S (S (S (S (S (S (S (S (S (S (S (S
                   (S (S (S (S (S (S (S (S (S (S (S (S (S (S (S (S (S (S (S
                   (S (S (S (S (S (S (S (S (S (S (S (S (S (S (S (S (S (S (S
                   (S (S (S (S (S (S (S (S (S (S (S (S (S (S (S (S (S (S (S
                   (S (S (S (S (S (S (S (S (S (S (S (S (S (S (S (S (S (S (S
                   (S (S (S (S (S (S (S (S (S (S (S (S (S (S (S (S (S (S (S
                   (S (S (S (S (S (S (S (S (S (S (S (S (S (S (S (S (S (S (S
                   (S (S (S (S (S (S (S (S (S (S (S (S (S (S (S (S (S (S (S
                   (S (S (S (S (S (S (S (S (S (S (S (S (S (S (S (S (S (S (S
                   (S (S (S (S (S (S (S (S (S (S (S (S (S (S (S (S (S (S (S
                   (S (S (S (S (S (S (S (S (S (S (S (S (S (S (S (S (S (S (S
                   (S (S (S (S (S (S (S (S (S (S (S (S (S (S (S (S (S (S (S
                   (S (S (S (S (S (S (S (S (S (S (S (S (S (S (S (S (S (S (S
                   (S (S (S (S (S (S (S (S (S (S (S (S (S (S (S (S (S (S (S
                   (S (S (S (S (S (S (S (S (S (S (S (S (S (S (S (S (S (S (S
                   (S (S (S (S (S (S (S (S (S (S (S (S (S (S (S (S (S (S (S
                   (S (S (S (S (S (S (S (S (S (S (S (S (S (S (S (S (S (S (S
                   (S (S (S (S (S (S (S (S (S (S (S (S (S (S (S (S (S (S (S
                   (S (S (S (S (S (S (S (S (S (S (S (S (S (S (S (S (S (S (S
                   (S (S (S (S (S (S (S (S (S (S (S (S (S (S (S (S (S (S (S
                   (S (S (S (S (S (S (S (S (S (S (S (S (S (S (S (S (S (S (S
                   (S (S (S (S (S (S (S (S (S (S (S (S (S (S (S (S (S (S (S
                   (S (S (S (S (S (S (S (S (S (S (S (S (S (S (S (S (S (S (S
                   (S (S (S (S (S (S (S (S (S (S (S (S (S (S (S (S (S (S (S
                   (S (S (S (S (S (S (S (S (S (S (S (S (S (S (S (S (S (S (S
                   (S (S (S (S (S (S (S (S (S (S (S (S (S (S (S (S (S (S (S
                   (S (S (S (S (S (S (S (S (S (S (S (S (S (S (S (S (S (S (S
                   (S (S (S (S (S (S (S (S (S (S (S (S (S (S (S (S (S (S (S
                   O))))))))))))))))))))))))))))))))))))))))))))))))))))))))))))))))))))))))))))))))))))))))))))))))))))))))))))))))))))))))))))))))))))))))))))))))))))))))))))))))))))))))))))))))))))))))))))))))))))))))))))))))))))))))))))))))))))))))))))))))))))))))))))))))))))))))))))))))))))))))))))))))))))))))))))))))))))))))))))))))))))))))))))))))))))))))))))))))))))))))))))))))))))))))))))))))))))))))))))))))))))))))))))))))))))))))))))))))))))))))))))))))))))))))))))))))))))))))))))))))))))))))))))))))))))))))))))))))))))))))))))))))))))))))))))))))))))))))))))))))))))))))))))))))))))))))))))))))))))))))))))))))))))))))))))))))))))))))))))))))))))))))))))))))))))))))))))))))))))))))))))))))))))))))))))))))))))))))))))))))))))))))))))))))))))))))))))))))))))))))))))))))))))))))))))))))))))))))))))))))))))))))))))))))))))))))))))))))))))))))))))))))))))))))))))))))))))))))))))))))))))))))))))))))))))))))))))))))))))))))))))))))))))))))))))))))))))))))))))))))))))))))))))))))))))))))))))))))))))))))))))))))))))))))))))))))
                   (sub c1 c)
              then None
              else if is_value_mark r1
                   then (match skipn (S O) r1 with
                         | [] ->
                           (match to_ls [] (S c1) with
                            | Some p1 ->
                              let (r4, c4) = p1 in
                              (match r4 with
                               | [] -> Some ((((unnums k), Null), []), c4)
                               | _ :: _ ->
                                 if Nat.ltb m c4
                                 then (match block_node f r4 c4 (S m) true with
                                       | Some p2 ->
                                         let (p3, c5) = p2 in
                                         let (v, r5) = p3 in
                                         Some ((((unnums k), v), r5), c5)
                                       | None -> None)
                                 else Some ((((unnums k), Null), r4), c4))
                            | None -> None)
                         | n0 :: l0 ->
                           (match n0 with
                            | N0 ->
                              (match to_ls (N0 :: l0) (S c1) with
                               | Some p1 ->
                                 let (r4, c4) = p1 in
                                 (match r4 with
                                  | [] -> Some ((((unnums k), Null), []), c4)
                                  | _ :: _ ->
                                    if Nat.ltb m c4
                                    then (match block_node f r4 c4 (S m) true with
                                          | Some p2 ->
                                            let (p3, c5) = p2 in
                                            let (v, r5) = p3 in
                                            Some ((((unnums k), v), r5), c5)
                                          | None -> None)
                                    else Some ((((unnums k), Null), r4), c4))
                               | None -> None)
                            | Npos p1 ->
                              (match p1 with
                               | XO p2 ->
                                 (match p2 with
                                  | XO p3 ->
                                    (match p3 with
                                     | XO p4 ->
                                       (match p4 with
                                        | XO p5 ->
                                          (match p5 with
                                           | XO p6 ->
                                             (match p6 with
                                              | XH ->
                                                let (r4, c4) =
                                                  skip_sp ((Npos (XO (XO (XO
                                                    (XO (XO XH)))))) :: l0)
                                                    (S c1)
                                                in
                                                (match r4 with
                                                 | [] ->
                                                   Some ((((unnums k), Null),
                                                     []), c4)
                                                 | _ :: _ ->
                                                   (match block_node f r4 c4
                                                            (S m) false with
                                                    | Some p7 ->
                                                      let (p8, c5) = p7 in
                                                      let (v, r5) = p8 in
                                                      Some ((((unnums k), v),
                                                      r5), c5)
                                                    | None -> None))
                                              | x ->
                                                (match to_ls ((Npos (XO (XO
                                                         (XO (XO (XO
                                                         x)))))) :: l0) (S c1) with
                                                 | Some p7 ->
                                                   let (r4, c4) = p7 in
                                                   (match r4 with
                                                    | [] ->
                                                      Some ((((unnums k),
                                                        Null), []), c4)
                                                    | _ :: _ ->
                                                      if Nat.ltb m c4
                                                      then (match block_node
                                                                    f r4 c4
                                                                    (S m) true with
                                                            | Some p8 ->
                                                              let (p9, c5) =
                                                                p8
                                                              in
                                                              let (v, r5) = p9
                                                              in
                                                              Some
                                                              ((((unnums k),
                                                              v), r5), c5)
                                                            | None -> None)
                                                      else Some
                                                             ((((unnums k),
                                                             Null), r4), c4))
                                                 | None -> None))
                                           | x ->
                                             (match to_ls ((Npos (XO (XO (XO
                                                      (XO x))))) :: l0) (S c1) with
                                              | Some p6 ->
                                                let (r4, c4) = p6 in
                                                (match r4 with
                                                 | [] ->
                                                   Some ((((unnums k), Null),
                                                     []), c4)
                                                 | _ :: _ ->
                                                   if Nat.ltb m c4
                                                   then (match block_node f
                                                                 r4 c4 (S m)
                                                                 true with
                                                         | Some p7 ->
                                                           let (p8, c5) = p7
                                                           in
                                                           let (v, r5) = p8 in
                                                           Some
                                                           ((((unnums k), v),
                                                           r5), c5)
                                                         | None -> None)
                                                   else Some ((((unnums k),
                                                          Null), r4), c4))
                                              | None -> None))
                                        | x ->
                                          (match to_ls ((Npos (XO (XO (XO
                                                   x)))) :: l0) (S c1) with
                                           | Some p5 ->
                                             let (r4, c4) = p5 in
                                             (match r4 with
                                              | [] ->
                                                Some ((((unnums k), Null),
                                                  []), c4)
                                              | _ :: _ ->
                                                if Nat.ltb m c4
                                                then (match block_node f r4
                                                              c4 (S m) true with
                                                      | Some p6 ->
                                                        let (p7, c5) = p6 in
                                                        let (v, r5) = p7 in
                                                        Some ((((unnums k),
                                                        v), r5), c5)
                                                      | None -> None)
                                                else Some ((((unnums k),
                                                       Null), r4), c4))
                                           | None -> None))
                                     | x ->
                                       (match to_ls ((Npos (XO (XO
                                                x))) :: l0) (S c1) with
                                        | Some p4 ->
                                          let (r4, c4) = p4 in
                                          (match r4 with
                                           | [] ->
                                             Some ((((unnums k), Null), []),
                                               c4)
                                           | _ :: _ ->
                                             if Nat.ltb m c4
                                             then (match block_node f r4 c4
                                                           (S m) true with
                                                   | Some p5 ->
                                                     let (p6, c5) = p5 in
                                                     let (v, r5) = p6 in
                                                     Some ((((unnums k), v),
                                                     r5), c5)
                                                   | None -> None)
                                             else Some ((((unnums k), Null),
                                                    r4), c4))
                                        | None -> None))
                                  | x ->
                                    (match to_ls ((Npos (XO x)) :: l0) (S c1) with
                                     | Some p3 ->
                                       let (r4, c4) = p3 in
                                       (match r4 with
                                        | [] ->
                                          Some ((((unnums k), Null), []), c4)
                                        | _ :: _ ->
                                          if Nat.ltb m c4
                                          then (match block_node f r4 c4 (S
                                                        m) true with
                                                | Some p4 ->
                                                  let (p5, c5) = p4 in
                                                  let (v, r5) = p5 in
                                                  Some ((((unnums k), v),
                                                  r5), c5)
                                                | None -> None)
                                          else Some ((((unnums k), Null),
                                                 r4), c4))
                                     | None -> None))
                               | x ->
                                 (match to_ls ((Npos x) :: l0) (S c1) with
                                  | Some p2 ->
                                    let (r4, c4) = p2 in
                                    (match r4 with
                                     | [] ->
                                       Some ((((unnums k), Null), []), c4)
                                     | _ :: _ ->
                                       if Nat.ltb m c4
                                       then (match block_node f r4 c4 (S m)
                                                     true with
                                             | Some p3 ->
                                               let (p4, c5) = p3 in
                                               let (v, r5) = p4 in
                                               Some ((((unnums k), v), r5),
                                               c5)
                                             | None -> None)
                                       else Some ((((unnums k), Null), r4),
                                              c4))
                                  | None -> None))))
                   else None
            | None -> None)
    in
    (match entry with
     | Some p ->
       let (p0, c2) = p in
       let (p1, r2) = p0 in
       (match r2 with
        | [] -> Some (((build_map (rev (p1 :: acc))), []), c2)
        | _ :: _ ->
          if Nat.ltb c2 m
          then Some (((build_map (rev (p1 :: acc))), r2), c2)
          else if Nat.eqb c2 m then block_map f r2 c2 m (p1 :: acc) else None)
     | None -> None)

(** val load_octs : octs -> item option **)

let load_octs doc = match doc with
| [] -> Some Null
| _ :: _ ->
  if three_dots doc
  then Some Null
  else (match block_node (add (mul (S (S O)) (length doc)) (S (S (S (S O)))))
                doc O (S O) true with
        | Some p ->
          let (p0, _) = p in
          let (t, o) = p0 in (match o with
                              | [] -> Some t
                              | _ :: _ -> None)
        | None -> None)

(** val load_doc : bytes -> item option **)

let load_doc doc =
  load_octs (nums doc)
