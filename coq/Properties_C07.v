(** C07 - candidates for an input are exactly the dictionary entries that its code spells.

    Model: coq/Lookup/Model.v (Table::Query, match_extra_code, lookup_table, compare_chunk_by_head_element,
    DictEntryIterator, Dictionary::LookupWords, ScriptTranslation, TableTranslation, LazyTableTranslation,
    SentenceTranslation, DistinctTranslation).  The syllable graph, the table index and the prism are inputs
    ([wf_graph], [graph_pruned], [wf_table], [table_sorted] state what C08 / C06 guarantee of them); Poet is an
    oracle of which only the type of its answer is assumed.  All statements are for every graph, table, prism
    and input: no bound on sizes. *)
From Coq Require Import List Arith ZArith NArith Bool Sorted Permutation.
From Coq.Strings Require Import Byte.
From RimeV Require Import Lookup.Defs Lookup.Model Lookup.Spec Lookup.MapProofs Lookup.QueryProofs Lookup.IterProofs
     Lookup.LookupProofs Lookup.ScriptProofs Lookup.TableProofs Lookup.Examples Lookup.Compose Lookup.WeightProofs Lookup.LazyProofs Lookup.ComposeTable Lookup.ComposePrism Lookup.ComposeAll Lookup.Poet Lookup.PoetProofs Lookup.PoetCompose.
Import ListNotations.

(** * Table::Query returns, at every end position, exactly the index codes that label a path of the graph *)
Theorem C07_query_sound_complete : forall g t start e a,
  wf_graph g -> start < g_ilen g ->
  (In (e, a) (query g t start) <-> short_result g t start e a \/ long_result g t start e a).
Proof. exact query_sound_complete. Qed.
Print Assumptions C07_query_sound_complete.

Theorem C07_query_short_codes : forall g t start c e,
  wf_graph g -> wf_table t -> start < g_ilen g -> 1 <= length c <= 3 -> node_ents t c <> [] ->
  ((exists cred, In (e, AccShort c (node_ents t c) cred) (query g t start)) <-> gpath g start c e).
Proof. exact query_short_codes. Qed.
Print Assumptions C07_query_short_codes.

Theorem C07_query_tail_pages : forall g t start ic e,
  wf_graph g -> wf_table t -> start < g_ilen g -> node_tail t ic <> [] ->
  ((exists cred, In (e, AccLong ic (node_tail t ic) cred) (query g t start)) <->
   gpath g start ic e /\ e < g_ilen g /\ exists index, In (e, index) (g_indices g)).
Proof. exact query_tail_pages. Qed.
Print Assumptions C07_query_tail_pages.

(** * lookup_table + match_extra_code: the collector holds, under end position [e], exactly the table entries whose
    code is spelled start -> e (codes longer than 3 syllables at the farthest end their extra code reaches) *)
Theorem C07_collector_exact : forall g t start e c te,
  wf_graph g -> wf_table t -> start < g_ilen g ->
  ((exists ch, In (e, ch) (lookup_chunks g t start false) /\ c_code ch = c /\ In te (c_ents ch)) <->
   table_has t c te /\ spelled g c start e).
Proof. exact collector_exact. Qed.
Print Assumptions C07_collector_exact.

(** * DictEntryIterator: every entry exactly once, best head first *)
Theorem C07_iterator_yields_every_entry_once : forall it,
  Forall nonempty it -> Permutation (drain_all it) (all_entries it).
Proof. exact drain_all_perm. Qed.
Print Assumptions C07_iterator_yields_every_entry_once.

Theorem C07_iterator_best_head_first : forall it,
  Forall chunk_ok it -> StronglySorted dle (drain_all (sort_head it)).
Proof. exact drain_all_sorted. Qed.
Print Assumptions C07_iterator_best_head_first.

(** * script translator: the phrase candidates are exactly the spelled entries *)
Theorem C07_script_candidates_exact : forall g t e c txt,
  wf_graph g -> wf_table t -> 0 < g_ilen g ->
  (In (mkCand TPhrase 0 e txt c) (script_phrases (lookup g t 0 false)) <->
   (exists w, table_has t c (mkTE txt w) /\ spelled g c 0 e)).
Proof. exact script_candidates_exact. Qed.
Print Assumptions C07_script_candidates_exact.

Theorem C07_candidates_on_complete_segmentation : forall g c e,
  graph_pruned g -> c <> [] -> gpath g 0 c e -> on_complete_segmentation g e.
Proof. exact spelled_on_complete_segmentation. Qed.
Print Assumptions C07_candidates_on_complete_segmentation.

(** longer matches come before shorter ones *)
Theorem C07_script_longer_first : forall g t start predict,
  wf_graph g -> table_sorted t ->
  StronglySorted (fun a b => k_end b <= k_end a) (script_phrases (lookup g t start predict)).
Proof. exact script_longer_first. Qed.
Print Assumptions C07_script_longer_first.

(** the order the code implements: end positions descending, then exact before predictive, then weight +
    credibility non-increasing *)
Theorem C07_script_best_head_first : forall g t start predict,
  wf_graph g -> table_sorted t ->
  StronglySorted pe_le (script_phrase_entries (lookup g t start predict)).
Proof. exact script_phrase_entries_sorted. Qed.
Print Assumptions C07_script_best_head_first.

(** the property's wording: entries with the same code appear in non-increasing (dictionary) weight order.
    In the form the code implements (weight PLUS the credibility of the path the chunk was reached over): *)
Theorem C07_same_end_weight_plus_credibility_order : forall g t start predict l1 a l2 b l3,
  wf_graph g -> table_sorted t ->
  script_phrase_entries (lookup g t start predict) = l1 ++ a :: l2 ++ b :: l3 ->
  fst a = fst b -> (d_match (snd a) =? 0) = (d_match (snd b) =? 0) ->
  (d_w (snd b) <= d_w (snd a))%Z.
Proof. exact script_same_end_weight_order. Qed.
Print Assumptions C07_same_end_weight_plus_credibility_order.

(** for the pure dictionary weight the statement is FALSE of the undeduplicated stream: two chunks of one code
    reached over paths of different credibility are merged by weight + credibility (witness: A 5, B 3 under one code
    reached with credibilities 0 and -10: A, B, A, B).  The undeduplicated stream is not observable - the
    translator wraps it in DistinctTranslation - and the property speaks of the candidate list: *)
Theorem C07_raw_stream_weight_order_refuted : ~ raw_stream_weight_order.
Proof. exact raw_stream_weight_order_refuted. Qed.
Print Assumptions C07_raw_stream_weight_order_refuted.

(** ... in the candidate list (after DistinctTranslation, for every set of texts already shown) two entries of one
    code, one end position and one exactness class appear in non-increasing DICTIONARY weight order: FULL. *)
Theorem C07_same_code_weight_order : forall g t predict seen l1 a l2 b l3 ca ta cb tb,
  wf_graph g -> wf_table t -> table_sorted t -> 0 < g_ilen g ->
  distinct_pe seen (script_phrase_entries (lookup g t 0 predict)) = l1 ++ a :: l2 ++ b :: l3 ->
  fst a = fst b ->
  In (fst a, ca) (lookup_chunks g t 0 predict) -> In ta (c_ents ca) -> snd a = mk_dentry ca ta ->
  In (fst b, cb) (lookup_chunks g t 0 predict) -> In tb (c_ents cb) -> snd b = mk_dentry cb tb ->
  c_code ca = c_code cb -> (c_match ca <? length (c_code ca)) = (c_match cb <? length (c_code cb)) ->
  (te_w tb <= te_w ta)%Z.
Proof. exact script_distinct_same_code_weight_order. Qed.
Print Assumptions C07_same_code_weight_order.

(** ... and without the restriction to one end position and one exactness class - the property's wording as it
    stands: in the candidate list any two entries of one code appear in non-increasing dictionary weight order
    (round 3; the manifest used to call this clause partial). *)
Theorem C07_same_code_weight_order_any_end : forall g t predict seen l1 a l2 b l3 ca ta cb tb,
  wf_graph g -> wf_table t -> table_sorted t -> 0 < g_ilen g ->
  distinct_pe seen (script_phrase_entries (lookup g t 0 predict)) = l1 ++ a :: l2 ++ b :: l3 ->
  In (fst a, ca) (lookup_chunks g t 0 predict) -> In ta (c_ents ca) -> snd a = mk_dentry ca ta ->
  In (fst b, cb) (lookup_chunks g t 0 predict) -> In tb (c_ents cb) -> snd b = mk_dentry cb tb ->
  c_code ca = c_code cb ->
  (te_w tb <= te_w ta)%Z.
Proof. exact script_distinct_same_code_weight_order_full. Qed.
Print Assumptions C07_same_code_weight_order_any_end.

(** the candidate list of ScriptTranslator::Query is the sentence (if any) followed by that deduplicated stream *)
Theorem C07_script_query_shape : forall (poet : wgraph -> nat -> option sentence) wordcompl mh g t,
  let predict := wordcompl && (g_ilen g =? g_input_len g) in
  exists sent seen, (sent = [] \/ exists s, sent = [sentence_cand s]) /\
    script_query poet wordcompl mh g t =
    sent ++ map phrase_cand (distinct_pe seen (script_phrase_entries (lookup g t 0 predict))).
Proof. exact script_query_shape. Qed.
Print Assumptions C07_script_query_shape.

(** * the sentence is a concatenation of spelled entries covering the interpreted input (Poet: oracle) *)
Theorem C07_sentence_is_concatenation : forall (poet : wgraph -> nat -> option sentence),
  (forall wg total s, poet wg total = Some s -> wg_path_ok wg 0 total s = true) ->
  forall g t mh s, wf_graph g -> wf_table t ->
  poet (script_wgraph g t mh) (g_ilen g) = Some s -> chain g t 0 (g_ilen g) s.
Proof. exact sentence_is_concatenation. Qed.
Print Assumptions C07_sentence_is_concatenation.

(** * nothing foreign; every spelled entry is there *)
Theorem C07_script_no_foreign_candidate : forall (poet : wgraph -> nat -> option sentence),
  (forall wg total s, poet wg total = Some s -> wg_path_ok wg 0 total s = true) ->
  forall wordcompl mh g t c, wf_graph g -> wf_table t ->
  In c (script_query poet wordcompl mh g t) ->
  phrase_ok g t c \/ completion_ok g t wordcompl c \/ sentence_ok g t c.
Proof. exact script_no_foreign_candidate. Qed.
Print Assumptions C07_script_no_foreign_candidate.

Theorem C07_script_contains_every_entry : forall (poet : wgraph -> nat -> option sentence) wordcompl mh g t c te e,
  wf_graph g -> wf_table t -> 0 < g_ilen g ->
  table_has t c te -> gpath g 0 c e ->
  exists k, In k (script_query poet wordcompl mh g t) /\ k_text k = te_text te.
Proof. exact script_contains_every_entry. Qed.
Print Assumptions C07_script_contains_every_entry.

Theorem C07_distinct_keeps_first_occurrences : forall l c,
  In c l -> exists c', In c' (distinct [] l) /\ k_text c' = k_text c.
Proof. exact distinct_complete. Qed.
Print Assumptions C07_distinct_keeps_first_occurrences.

(** * table translator *)
(** entries whose code equals the input: all of them, in non-increasing weight order (after the repair 3b72e76) *)
Theorem C07_table_exact_weight_order : forall pr syls t code,
  table_sorted t ->
  StronglySorted (fun a b => (d_w b <= d_w a)%Z) (table_entries true false pr syls t code) /\
  Permutation (table_entries true false pr syls t code) (all_entries (plain_chunks pr syls t code)).
Proof. exact table_exact_weight_order. Qed.
Print Assumptions C07_table_exact_weight_order.

(** before the repair the statement is false of the faithful model: the witness (a key spelling two syllables) is
    replayed on the real code by the check's algebra schemas *)
Theorem C07_table_exact_weight_order_unsorted_refuted :
  exists pr syls t code, table_sorted t /\
    ~ StronglySorted (fun a b => (d_w b <= d_w a)%Z) (table_entries false false pr syls t code).
Proof. exact table_exact_weight_order_unsorted_refuted. Qed.
Print Assumptions C07_table_exact_weight_order_unsorted_refuted.

(** no completion candidate when completion is disabled: only entries of syllables the input itself spells *)
Theorem C07_table_no_completion_when_disabled : forall presort pr syls t code d,
  In d (table_entries presort false pr syls t code) ->
  d_remlen d = 0 /\ exists sps sid, In (code, sps) pr /\ In (sid, 0) sps /\ d_code d = [sid] /\
                               In (mkTE (d_text d) (d_w d)) (node_ents t [sid]).
Proof. exact table_no_completion_when_disabled. Qed.
Print Assumptions C07_table_no_completion_when_disabled.

(** with completion: whatever the number of fetches, every entry shown belongs to a key that extends the input *)
Theorem C07_table_completion_sound : forall presort pr syls t code d,
  In d (table_entries presort true pr syls t code) ->
  exists key sps sid, is_prefix code key = true /\ In (key, sps) pr /\ In (sid, 0) sps /\ d_code d = [sid] /\
                      In (mkTE (d_text d) (d_w d)) (node_ents t [sid]).
Proof. exact table_completion_candidates_sound. Qed.
Print Assumptions C07_table_completion_sound.

(** exact matches first in weight order, then completions, for ANY number of extending keys (the fetch-more protocol
    with limits 10, 100, 1000, ... and Skip): the chunks of the first ten keys (the key equal to the input is the
    first) are drained completely, best head first - no remaining code before remaining code, then weight
    non-increasing -, and everything shown afterwards is an entry of a chunk of a later key: FULL. *)
Theorem C07_table_exact_then_completion : forall pr syls t code,
  table_sorted t ->
  let b1 := B1 pr syls t code in
  let r := R pr syls t code in
  snd (lookup_words pr syls t code true 0) = b1 ++ r /\
  exists rest,
    table_entries true true pr syls t code = drain_all (sort_head b1) ++ rest /\
    Permutation (drain_all (sort_head b1)) (all_entries b1) /\
    StronglySorted dle (drain_all (sort_head b1)) /\
    forall d, In d rest -> exists c te, In c r /\ In te (c_ents c) /\ d = mk_dentry c te.
Proof. exact table_exact_then_completion. Qed.
Print Assumptions C07_table_exact_then_completion.

(** with fewer than 10 extending keys (one fetch) the whole list is one best-head-first merge of all chunks *)
Theorem C07_table_single_fetch_globally_sorted : forall pr syls t code,
  table_sorted t ->
  fst (lookup_words pr syls t code true 10) < 10 ->
  let chunks := snd (lookup_words pr syls t code true 0) in
  Permutation (table_entries true true pr syls t code) (all_entries chunks) /\
  StronglySorted dle (table_entries true true pr syls t code).
Proof. exact table_exact_then_completion_partial. Qed.
Print Assumptions C07_table_single_fetch_globally_sorted.

(** ... which is false of the faithful model beyond ten keys (a later fetch is drained after the earlier one; and a
    fetch that brings no new entry ends the translation).  The property asks for no order among completions nor
    for all of them, so this is not a violation; eleven-key witness, the eleventh key with the best weight. *)
Theorem C07_table_global_order_refuted : ~ global_order_full.
Proof. exact global_order_full_refuted. Qed.
Print Assumptions C07_table_global_order_refuted.

(** [dle] on table entries: no remaining code (code equals the input) first, by non-increasing weight *)
Theorem C07_table_order_meaning : forall a b,
  dle a b -> d_match a = 0 -> d_match b = 0 ->
  d_remlen a <= d_remlen b /\ (d_remlen a = d_remlen b -> (d_w b <= d_w a)%Z).
Proof. exact dle_table. Qed.
Print Assumptions C07_table_order_meaning.

(** sentence mode of the table translator: the prefix phrases come longest first *)
Theorem C07_prefix_phrases_longer_first : forall coll,
  StronglySorted (fun a b => k_end b <= k_end a) (prefix_phrases coll).
Proof. exact prefix_phrases_desc. Qed.
Print Assumptions C07_prefix_phrases_longer_first.

(** ... but they are NOT confined to prefixes on a complete segmentation (known finding, replayed on the real code) *)
Theorem C07_table_prefix_phrases_off_segmentation_witness :
  map (fun c => (k_end c, k_text c))
      (table_query (fun _ _ => Some f1_sentence) false true 1 f1_prism f1_syls f1_table [39%N] f1_input)
  = [(4, [68%N; 66%N]); (3, [68%N]); (2, [67%N]); (1, [66%N])] /\
  wg_path_ok (table_wgraph 1 f1_prism f1_syls f1_table [39%N] f1_input) 0 4 f1_sentence = true /\
  common_prefix f1_prism (skipn 1 f1_input) = [] /\ common_prefix f1_prism (skipn 2 f1_input) = [].
Proof. exact table_prefix_phrases_off_segmentation. Qed.
Print Assumptions C07_table_prefix_phrases_off_segmentation_witness.

(** * composition with C08 (Dict/Syll.v): the graph BuildSyllableGraph hands over meets the hypotheses made above,
    for every well-formed prism, delimiter set, flag combination and input ([cv] : any valuation of C08's symbolic
    credibilities) *)
Theorem C07_built_graph_wf : forall cv P delims comp strict inp g0,
  SS.prism_wf P delims -> Sy.build_syllable_graph P delims comp strict inp = Some g0 ->
  wf_graph (conv_graph cv g0).
Proof. exact built_graph_wf. Qed.
Print Assumptions C07_built_graph_wf.

Theorem C07_built_graph_pruned : forall cv P delims comp strict inp g0,
  SS.prism_wf P delims -> Sy.build_syllable_graph P delims comp strict inp = Some g0 ->
  graph_pruned (conv_graph cv g0).
Proof. exact built_graph_pruned. Qed.
Print Assumptions C07_built_graph_pruned.

(** paths of the converted graph are chains of C08's retained edges (each hop is then described by C08_edge_sound) *)
Theorem C07_paths_are_edge_chains : forall cv P delims comp strict inp g0,
  SS.prism_wf P delims -> Sy.build_syllable_graph P delims comp strict inp = Some g0 ->
  forall s c e, gpath (conv_graph cv g0) s c e <-> epath g0 s c e.
Proof. exact gpath_epath. Qed.
Print Assumptions C07_paths_are_edge_chains.

(** end to end over C08: for every prism, flags and input, the phrase candidates computed on the graph of
    BuildSyllableGraph are exactly the table entries whose code is spelled from 0, and each lies on a complete
    segmentation of the interpreted input *)
Theorem C07_script_candidates_exact_end_to_end : forall cv P delims comp strict inp g0,
  SS.prism_wf P delims -> Sy.build_syllable_graph P delims comp strict inp = Some g0 ->
  forall t e c txt, wf_table t -> 0 < Sy.g_interpreted_length g0 ->
  (In (mkCand TPhrase 0 e txt c) (script_phrases (lookup (conv_graph cv g0) t 0 false)) <->
   (exists w, table_has t c (mkTE txt w) /\ spelled (conv_graph cv g0) c 0 e)) /\
  (In (mkCand TPhrase 0 e txt c) (script_phrases (lookup (conv_graph cv g0) t 0 false)) ->
   epath g0 0 c e /\ on_complete_segmentation (conv_graph cv g0) e).
Proof. exact script_candidates_exact_over_built_graph. Qed.
Print Assumptions C07_script_candidates_exact_end_to_end.

(** ... and every table entry whose code is the syllable sequence of a prefix of a complete segmentation of the
    tilable prefix by normal spellings is among the candidates of the script translator *)
Theorem C07_script_contains_entries_on_normal_segmentations : forall cv P delims comp strict inp g0,
  SS.prism_wf P delims -> Sy.build_syllable_graph P delims comp strict inp = Some g0 ->
  forall (poet : wgraph -> nat -> option sentence) wordcompl mh t far l1 l2 te,
  wf_table t -> Sy.forward_farthest P delims strict inp = Some far ->
  SS.tiling P delims strict inp 0 far (l1 ++ l2) ->
  Forall (fun x : nat * nat * Sy.desc => Sy.d_type (snd x) = Sy.kNormalSpelling) (l1 ++ l2) -> l1 <> [] ->
  table_has t (map (fun x : nat * nat * Sy.desc => Sy.d_sid (snd x)) l1) te ->
  exists k, In k (script_query poet wordcompl mh (conv_graph cv g0) t) /\ k_text k = te_text te.
Proof. exact script_contains_entries_on_normal_segmentations. Qed.
Print Assumptions C07_script_contains_entries_on_normal_segmentations.

(** * composition with C06 (Dict/Vocab.v, Dict/TableIx.v): the index Table::Build produces meets the hypotheses made
    above - for every vocabulary C06 calls well-formed, hence for every source ([cast] : the double -> float cast of
    the log weight, [wz] : any valuation of the stored weight that is monotone through the cast) *)
Theorem C07_built_index_wf : forall F (cast : Vo.dec -> F) (wz : F -> Z) S v,
  TP.wf1 S v -> wf_table (conv_head F wz (Ix.build_head cast S v)).
Proof. exact built_index_wf. Qed.
Print Assumptions C07_built_index_wf.

Theorem C07_built_index_sorted : forall F (cast : Vo.dec -> F) (wz : F -> Z),
  (forall a b, Vo.dec_leb a b = true -> (wz (cast a) <= wz (cast b))%Z) ->
  forall S v, TP.sorted1 v -> table_sorted (conv_head F wz (Ix.build_head cast S v)).
Proof. exact built_index_sorted. Qed.
Print Assumptions C07_built_index_sorted.

Theorem C07_compiled_index_wf : forall F (cast : Vo.dec -> F) (wz : F -> Z) sort_original files,
  let c := Vo.collect_files files in
  wf_table (conv_head F wz (Ix.build_head cast (length (Vo.co_syll c)) (Vo.compile_vocab sort_original c))).
Proof. exact compiled_index_wf. Qed.
Print Assumptions C07_compiled_index_wf.

Theorem C07_compiled_index_sorted : forall F (cast : Vo.dec -> F) (wz : F -> Z),
  (forall a b, Vo.dec_leb a b = true -> (wz (cast a) <= wz (cast b))%Z) ->
  forall files, let c := Vo.collect_files files in
  table_sorted (conv_head F wz (Ix.build_head cast (length (Vo.co_syll c)) (Vo.compile_vocab false c))).
Proof. exact compiled_index_sorted. Qed.
Print Assumptions C07_compiled_index_sorted.

(** both sides together: for every source dictionary (C06's pipeline), every well-formed prism, delimiter set,
    flags and input (C08's builder), the script translator's phrase candidates are exactly the entries of the
    compiled index whose code labels a chain of retained edges from 0, each on a complete segmentation of the
    interpreted input.  (C06_enumerate_build identifies the entries of the index with the source rows.) *)
Theorem C07_script_candidates_exact_source_to_candidates :
  forall F (cast : Vo.dec -> F) (wz : F -> Z) sort_original files cv P delims comp strict inp g0,
  SS.prism_wf P delims -> Sy.build_syllable_graph P delims comp strict inp = Some g0 ->
  0 < Sy.g_interpreted_length g0 ->
  let c := Vo.collect_files files in
  let t := conv_head F wz (Ix.build_head cast (length (Vo.co_syll c)) (Vo.compile_vocab sort_original c)) in
  let g := conv_graph cv g0 in
  forall e code txt,
  (In (mkCand TPhrase 0 e txt code) (script_phrases (lookup g t 0 false)) <->
   (exists w, table_has t code (mkTE txt w) /\ spelled g code 0 e)) /\
  (In (mkCand TPhrase 0 e txt code) (script_phrases (lookup g t 0 false)) ->
   epath g0 0 code e /\ on_complete_segmentation g e).
Proof.
  intros F cast wz so files cv P delims comp strict inp g0 WF HB Hl c t g e code txt.
  apply (script_candidates_exact_over_built_graph cv P delims comp strict inp g0 WF HB t e code txt);
    [apply compiled_index_wf|exact Hl].
Qed.
Print Assumptions C07_script_candidates_exact_source_to_candidates.

(** the entries of the converted index are C06's enumeration, hence the collected source entries, hence the rows *)
Theorem C07_table_has_enumerate : forall F (cast : Vo.dec -> F) (wz : F -> Z) S v c te,
  TP.wf1 S v ->
  (table_has (conv_head F wz (Ix.build_head cast S v)) c te <->
   exists ie, In (c, ie) (Ix.enumerate S (Ix.build_head cast S v)) /\ te = conv_entry F wz ie).
Proof. exact table_has_enumerate. Qed.
Print Assumptions C07_table_has_enumerate.

Theorem C07_table_has_source_rows : forall F (cast : Vo.dec -> F) (wz : F -> Z) sort_original files c txt,
  let col := Vo.collect_files files in
  let t := conv_head F wz (Ix.build_head cast (length (Vo.co_syll col)) (Vo.compile_vocab sort_original col)) in
  (exists w, table_has t c (mkTE txt w)) <->
  c <> [] /\ exists tx cs ws, In (Vo.LRow tx cs ws) (TP.source_rows files) /\ cs <> [] /\
                              txt = conv_text tx /\ c = map (Vo.id_of (Vo.co_syll col)) (Vo.split_skip x20 cs).
Proof. exact table_has_rows. Qed.
Print Assumptions C07_table_has_source_rows.

(** end to end, in ONE statement about the rows of the source dictionary file: for every source, prism, delimiter set,
    flags and input the script translator's phrase candidates are exactly the rows whose code (syllables by rank in the
    collected syllabary) labels a chain of retained edges of BuildSyllableGraph's graph from 0 *)
Theorem C07_script_candidates_exact_source_rows :
  forall F (cast : Vo.dec -> F) (wz : F -> Z) sort_original files cv P delims comp strict inp g0,
  SS.prism_wf P delims -> Sy.build_syllable_graph P delims comp strict inp = Some g0 ->
  0 < Sy.g_interpreted_length g0 ->
  let col := Vo.collect_files files in
  let t := conv_head F wz (Ix.build_head cast (length (Vo.co_syll col)) (Vo.compile_vocab sort_original col)) in
  let g := conv_graph cv g0 in
  forall e code txt,
  In (mkCand TPhrase 0 e txt code) (script_phrases (lookup g t 0 false)) <->
  (code <> [] /\ exists tx cs ws, In (Vo.LRow tx cs ws) (TP.source_rows files) /\ cs <> [] /\
                                 txt = conv_text tx /\ code = map (Vo.id_of (Vo.co_syll col)) (Vo.split_skip x20 cs)) /\
  spelled g code 0 e.
Proof. exact script_candidates_source_rows. Qed.
Print Assumptions C07_script_candidates_exact_source_rows.

(** * composition with C09 (Dict/PrismModel.v): the table translator's prism input.  [prism_at p q] lists, for C09's
    built prism [p], the keys extending [q] in ExpandSearch order with what QuerySpelling enumerates; what the lookup
    model reads from it is what C09's ExpandSearch (any limit), its match lengths and GetValue return *)
Theorem C07_prism_expand_faithful : forall fcred (fcast : Z -> fcred) (p : PM.prism fcred),
  PP.wf_prism fcred p -> NoDup (PM.p_keys fcred p) ->
  forall q L, expand_search (prism_at fcred fcast p q) (conv_text q) L =
              map (conv_match fcred fcast p) (PM.expand_search fcred p q L).
Proof. exact expand_search_prism_at. Qed.
Print Assumptions C07_prism_expand_faithful.

Theorem C07_prism_match_length : forall fcred (fcast : Z -> fcred) (p : PM.prism fcred),
  PP.wf_prism fcred p -> NoDup (PM.p_keys fcred p) ->
  forall q m, In m (PM.expand_search fcred p q 0) -> length (fst (conv_match fcred fcast p m)) = snd m.
Proof. exact match_length. Qed.
Print Assumptions C07_prism_match_length.

Theorem C07_prism_exact_faithful : forall fcred (fcast : Z -> fcred) (p : PM.prism fcred),
  PP.wf_prism fcred p ->
  forall q, exact_key (prism_at fcred fcast p q) (conv_text q) =
            option_map (spellings_of fcred fcast p) (PM.get_value fcred p q).
Proof. exact exact_key_prism_at. Qed.
Print Assumptions C07_prism_exact_faithful.

(** end to end, table translator, completion off: from the source files (C06), the syllabary they yield, the algebra
    rules (C09: compile_script, Prism::Build) and the input, the candidates are exactly the word rows of the syllables
    the input spells with a normal spelling in the script the algebra produces (in non-increasing weight order:
    C07_table_exact_weight_order with C07_compiled_index_sorted) *)
Theorem C07_table_candidates_sound_end_to_end :
  forall F (cast : Vo.dec -> F) (wz : F -> Z) fcred (fcast : Z -> fcred) sort_original files calcs sc,
  let syls := Vo.co_syll (Vo.collect_files files) in
  (forall s, In s syls -> s <> []) -> Al.compile_script syls calcs = Some sc ->
  let t := conv_head F wz (Ix.build_head cast (length syls) (Vo.compile_vocab sort_original (Vo.collect_files files))) in
  let p := PM.compile fcred fcast syls calcs in
  forall smap code d,
  In d (table_entries true false (prism_at fcred fcast p code) smap t (conv_text code)) ->
  exists sid tx, d_code d = [sid] /\ d_text d = conv_text tx /\ d_remlen d = 0 /\
                 spells_normal files sc code sid /\ word_row files sid tx.
Proof. exact table_plain_sound. Qed.
Print Assumptions C07_table_candidates_sound_end_to_end.

Theorem C07_table_candidates_complete_end_to_end :
  forall F (cast : Vo.dec -> F) (wz : F -> Z) fcred (fcast : Z -> fcred) sort_original files calcs sc,
  let syls := Vo.co_syll (Vo.collect_files files) in
  (forall s, In s syls -> s <> []) -> NoDup syls -> Al.compile_script syls calcs = Some sc ->
  let t := conv_head F wz (Ix.build_head cast (length syls) (Vo.compile_vocab sort_original (Vo.collect_files files))) in
  let p := PM.compile fcred fcast syls calcs in
  forall smap code sid tx,
  spells_normal files sc code sid -> word_row files sid tx ->
  exists d, In d (table_entries true false (prism_at fcred fcast p code) smap t (conv_text code)) /\
            d_code d = [sid] /\ d_text d = conv_text tx.
Proof. exact table_plain_complete. Qed.
Print Assumptions C07_table_candidates_complete_end_to_end.

(** completion on, any number of fetches: every candidate is a word row of a syllable spelled, with a normal
    spelling, by a key of the built prism that extends the input *)
Theorem C07_table_completion_sound_end_to_end :
  forall F (cast : Vo.dec -> F) (wz : F -> Z) fcred (fcast : Z -> fcred) sort_original files calcs sc,
  let syls := Vo.co_syll (Vo.collect_files files) in
  Al.compile_script syls calcs = Some sc ->
  let t := conv_head F wz (Ix.build_head cast (length syls) (Vo.compile_vocab sort_original (Vo.collect_files files))) in
  let p := PM.compile fcred fcast syls calcs in
  forall smap code d,
  In d (table_entries true true (prism_at fcred fcast p code) smap t (conv_text code)) ->
  exists sid tx key, d_code d = [sid] /\ d_text d = conv_text tx /\ word_row files sid tx /\
                     In key (PM.p_keys fcred p) /\ (exists w, key = code ++ w) /\
                     exists v, PM.get_value fcred p key = Some v /\ In (sid, 0) (spellings_of fcred fcast p v).
Proof. exact table_completion_sound_e2e. Qed.
Print Assumptions C07_table_completion_sound_end_to_end.

(** * non-vacuity *)
Theorem C07_example_meets_hypotheses :
  wf_graph ex_g /\ graph_pruned ex_g /\ wf_table ex_t /\ table_sorted ex_t /\ 0 < g_ilen ex_g /\
  table_has ex_t [0; 0; 0; 0; 0] tZ /\ spelled ex_g [0; 0; 0; 0; 0] 0 5 /\
  In (mkCand TPhrase 0 5 [90%N] [0; 0; 0; 0; 0]) (script_phrases (lookup ex_g ex_t 0 false)).
Proof. exact example_meets_hypotheses. Qed.
Print Assumptions C07_example_meets_hypotheses.

Theorem C07_example_candidates :
  map (fun c => (k_end c, k_text c, k_code c)) (script_phrases (lookup ex_g ex_t 0 false))
  = [(5, [90%N], [0; 0; 0; 0; 0]); (4, [87%N], [0; 0; 0; 0]); (2, [88%N; 88%N], [0; 0]); (1, [88%N], [0]); (1, [89%N], [0])].
Proof. exact ex_script_phrases. Qed.
Print Assumptions C07_example_candidates.

Theorem C07_example_word_completion :
  map (fun c => (k_type c, k_end c, k_text c)) (script_phrases (lookup ex_g4 ex_t 0 true))
  = [(TPhrase, 4, [87%N]); (TCompletion, 4, [90%N]); (TPhrase, 2, [88%N; 88%N]); (TPhrase, 1, [88%N]); (TPhrase, 1, [89%N])].
Proof. exact ex_script_completion. Qed.
Print Assumptions C07_example_word_completion.

Theorem C07_example_table_after_repair :
  map d_w (table_entries true false ex_prism ex_syls ex_table [98%N]) = [100%Z; 2%Z; 1%Z].
Proof. exact table_exact_weight_order_example. Qed.
Print Assumptions C07_example_table_after_repair.

(** * the sentence maker (gear/poet.cc) inside the model: Lookup/Poet.v ports Poet::MakeSentence with both strategies
    (DynamicProgramming without a grammar, BeamSearch with one), CompareWeight / LeftAssociateCompare and
    Grammar::Evaluate.  The oracle hypothesis of C07_sentence_is_concatenation / C07_script_no_foreign_candidate is
    discharged for it; the generic theorems above are kept. *)

(** every grammar, comparison, word graph and length: a returned sentence is a chain of word-graph entries that ends at
    [total] and never uses the single edge 0 -> total; it starts at 0 - or, without a grammar only, at the end of an
    edge WITHOUT entries (the dynamic programme creates [states[end_pos]] before it looks at the entries) *)
Theorem C07_poet_sentence_is_chain : forall gr pen cmp preceding wg total s,
  make_sentence gr pen cmp preceding wg total = Some s ->
  exists o, wchain wg total o total s /\ (o = 0 \/ (gr = None /\ eend wg o)).
Proof. exact make_sentence_chain. Qed.
Print Assumptions C07_poet_sentence_is_chain.

(** "... it starts at 0" for ALL word graphs is false of the faithful model (0 -[no entry]-> 1 -[X]-> 2 yields "X" as a
    sentence for [0, 2)); replayed on rime::Poet by the direct stream of the check.  Neither translator builds such
    a graph (the four theorems after the next two). *)
Theorem C07_poet_sentence_from_zero_refuted :
  wg_map quirk_wg /\ wg_sorted quirk_wg /\ wg_forward quirk_wg /\
  dp_sentence None 0%Z compare_weight [] quirk_wg 2 = Some [(qx, 2)] /\
  wg_path_ok quirk_wg 0 2 [(qx, 2)] = false /\ wg_path_ok quirk_wg 1 2 [(qx, 2)] = true.
Proof. exact dp_sentence_from_zero_refuted. Qed.
Print Assumptions C07_poet_sentence_from_zero_refuted.

(** the assumed [wg_path_ok wg 0 total s], proved: graphs (maps of maps) without an edge that has no entry ... *)
Theorem C07_poet_path_ok_no_empty_edge : forall gr pen cmp preceding wg total s,
  wg_det wg -> wg_no_empty wg ->
  make_sentence gr pen cmp preceding wg total = Some s -> wg_path_ok wg 0 total s = true.
Proof. exact make_sentence_path_ok_no_empty. Qed.
Print Assumptions C07_poet_path_ok_no_empty_edge.

(** ... and graphs whose every start position is reached over an edge with entries from an earlier start position *)
Theorem C07_poet_path_ok_grounded : forall gr pen cmp preceding wg total s,
  wg_det wg -> grounded wg total ->
  make_sentence gr pen cmp preceding wg total = Some s -> wg_path_ok wg 0 total s = true.
Proof. exact make_sentence_path_ok_grounded. Qed.
Print Assumptions C07_poet_path_ok_grounded.

(** script translator: hypothesis-free versions of the two sentence theorems, for the modelled Poet with any grammar,
    comparison, penalty and max_homophones (max_homophones = 0: every edge is empty and no sentence is made) *)
Theorem C07_script_poet_path_ok : forall gr pen cmp preceding g t mh s,
  wf_graph g ->
  make_sentence gr pen cmp preceding (script_wgraph g t mh) (g_ilen g) = Some s ->
  wg_path_ok (script_wgraph g t mh) 0 (g_ilen g) s = true.
Proof. exact script_poet_path_ok. Qed.
Print Assumptions C07_script_poet_path_ok.

Theorem C07_sentence_is_concatenation_modelled_poet : forall pen g t mh s,
  wf_graph g -> wf_table t ->
  poet_script pen (script_wgraph g t mh) (g_ilen g) = Some s -> chain g t 0 (g_ilen g) s.
Proof. intros pen. exact (script_poet_sentence_is_concatenation None pen compare_weight []). Qed.
Print Assumptions C07_sentence_is_concatenation_modelled_poet.

Theorem C07_script_no_foreign_candidate_modelled_poet : forall pen wordcompl mh g t c,
  wf_graph g -> wf_table t ->
  In c (script_query (poet_script pen) wordcompl mh g t) ->
  phrase_ok g t c \/ completion_ok g t wordcompl c \/ sentence_ok g t c.
Proof. intros pen. exact (script_poet_no_foreign_candidate None pen compare_weight []). Qed.
Print Assumptions C07_script_no_foreign_candidate_modelled_poet.

(** the same with a grammar plugin (BeamSearch), whatever its Query function returns *)
Theorem C07_script_no_foreign_candidate_any_grammar : forall gr pen cmp preceding wordcompl mh g t c,
  wf_graph g -> wf_table t ->
  In c (script_query (make_sentence gr pen cmp preceding) wordcompl mh g t) ->
  phrase_ok g t c \/ completion_ok g t wordcompl c \/ sentence_ok g t c.
Proof. exact script_poet_no_foreign_candidate. Qed.
Print Assumptions C07_script_no_foreign_candidate_any_grammar.

(** table translator: the graph TableTranslator::MakeSentence builds is a map of maps in key order with forward edges,
    and every start position is a vertex reached over an edge with entries *)
Theorem C07_table_wgraph_shape : forall mhg pr syls t delims inp,
  let wg := table_wgraph mhg pr syls t delims inp in
  wg_map wg /\ wg_sorted wg /\ wg_forward wg /\ grounded wg (length inp).
Proof.
  intros. split; [apply table_wgraph_map|]. split; [apply table_wgraph_sorted_forward|].
  split; [apply table_wgraph_sorted_forward|apply table_wgraph_grounded].
Qed.
Print Assumptions C07_table_wgraph_shape.

(** the sentence of the table translator is a concatenation of dictionary words, each spelled with a normal spelling by
    a prism key at its position (trailing delimiters consumed), covering the whole input *)
Theorem C07_table_sentence_is_concatenation_modelled_poet : forall pen mhg pr syls t delims inp l,
  table_sentence (poet_table pen) mhg pr syls t delims inp = Some l ->
  exists s, l = sentence_cand s :: prefix_phrases (snd (table_ms mhg pr syls t delims inp)) /\
            tchain pr t delims inp 0 (length inp) s /\
            wg_path_ok (table_wgraph mhg pr syls t delims inp) 0 (length inp) s = true.
Proof. intros pen mhg pr syls t delims inp. exact (table_poet_sentence_candidate mhg pr syls t delims inp None pen left_associate_compare []). Qed.
Print Assumptions C07_table_sentence_is_concatenation_modelled_poet.

Theorem C07_table_sentence_is_concatenation_any_grammar : forall gr pen cmp preceding mhg pr syls t delims inp s,
  make_sentence gr pen cmp preceding (table_wgraph mhg pr syls t delims inp) (length inp) = Some s ->
  tchain pr t delims inp 0 (length inp) s.
Proof. intros gr pen cmp preceding mhg pr syls t delims inp. exact (table_poet_sentence_is_concatenation mhg pr syls t delims inp gr pen cmp preceding). Qed.
Print Assumptions C07_table_sentence_is_concatenation_any_grammar.

(** completeness of the dynamic programme (key-ordered forward graph without empty edges): a sentence is returned iff
    some chain of at least two words leads from 0 to total.  Otherwise - the end is unreachable, reached by the single
    word 0 -> total only, or total = 0 - MakeSentence returns a null pointer and no sentence candidate is shown *)
Theorem C07_poet_dp_complete : forall pen cmp preceding wg total,
  wg_sorted wg -> wg_forward wg -> wg_no_empty wg ->
  ((exists s, dp_sentence None pen cmp preceding wg total = Some s) <->
   (exists p, 2 <= length p /\ wchain wg total 0 total p)).
Proof. exact dp_sentence_iff. Qed.
Print Assumptions C07_poet_dp_complete.

(** with empty edges allowed: every chain of at least one step (single edge excluded) yields a sentence *)
Theorem C07_poet_dp_complete_any_graph : forall pen cmp preceding wg total p,
  wg_sorted wg -> wg_forward wg -> p <> [] -> wchain wg total 0 total p ->
  exists s, dp_sentence None pen cmp preceding wg total = Some s.
Proof. exact dp_sentence_complete. Qed.
Print Assumptions C07_poet_dp_complete_any_graph.

(** optimality: for a comparison that is a strict weak order preserved under extension by a common word, no chain
    beats the returned line.  Ties: the update is strict ([compare_(best, new_line)]), so among lines that compare
    equal the one stored first stays - start positions ascending, end positions in map order, entries in list order *)
Theorem C07_poet_dp_optimal : forall pen cmp preceding wg total p,
  cmp_ok cmp -> wg_sorted wg -> wg_forward wg -> p <> [] -> wchain wg total 0 total p ->
  exists r, dp_best pen cmp preceding total wg = Some r /\
            dp_sentence None pen cmp preceding wg total = Some (sentence_of r) /\
            cmp r (line_of pen preceding total p) = false.
Proof. exact dp_optimal. Qed.
Print Assumptions C07_poet_dp_optimal.

Theorem C07_poet_tie_keeps_first : forall cmp best nl,
  (best <> [] -> cmp best nl = false -> better cmp best nl = best) /\
  (cmp best nl = true -> better cmp best nl = nl) /\
  ((compare_weight best nl = false /\ compare_weight nl best = false) <-> l_weight best = l_weight nl).
Proof.
  intros. split; [apply better_keeps_first|]. split; [apply better_takes_strictly_better|apply compare_weight_tie].
Qed.
Print Assumptions C07_poet_tie_keeps_first.

Theorem C07_poet_comparisons_ok : cmp_ok compare_weight /\ cmp_ok left_associate_compare.
Proof. split; [exact compare_weight_ok|exact left_associate_compare_ok]. Qed.
Print Assumptions C07_poet_comparisons_ok.

(** script translator (CompareWeight): the sentence has the greatest total of entry weight + penalty per word *)
Theorem C07_poet_dp_weight_maximal : forall pen preceding wg total p,
  wg_sorted wg -> wg_forward wg -> p <> [] -> wchain wg total 0 total p ->
  exists r, dp_sentence None pen compare_weight preceding wg total = Some (sentence_of r) /\
            (path_weight pen p <= l_weight r)%Z.
Proof. exact dp_weight_maximal. Qed.
Print Assumptions C07_poet_dp_weight_maximal.

(** table translator (LeftAssociateCompare) on the graph it builds: no tiling of the input by dictionary words beats
    the sentence shown - by weight, then fewer words, then lexicographically greater word lengths *)
Theorem C07_table_sentence_optimal : forall pen mhg pr syls t delims inp p,
  let wg := table_wgraph mhg pr syls t delims inp in
  p <> [] -> wchain wg (length inp) 0 (length inp) p ->
  exists r, poet_table pen wg (length inp) = Some (sentence_of r) /\
            left_associate_compare r (line_of pen [] (length inp) p) = false.
Proof.
  intros pen mhg pr syls t delims inp p wg Np H.
  destruct (dp_optimal pen left_associate_compare [] wg (length inp) p left_associate_compare_ok
              (proj1 (table_wgraph_sorted_forward mhg pr syls t delims inp))
              (proj2 (table_wgraph_sorted_forward mhg pr syls t delims inp)) Np H) as [r [_ [E C]]].
  exists r. split; [exact E|exact C].
Qed.
Print Assumptions C07_table_sentence_optimal.

(** non-vacuity: two competing segmentations of [0, 3) beside a much heavier single word *)
Theorem C07_poet_example_hypotheses :
  wg_map ex_wg /\ wg_sorted ex_wg /\ wg_forward ex_wg /\ wg_no_empty ex_wg /\
  wchain ex_wg 3 0 3 [(eA, 1); (eB, 3)] /\ wchain ex_wg 3 0 3 [(eC, 2); (eD, 3)].
Proof. exact ex_wg_hyps. Qed.
Print Assumptions C07_poet_example_hypotheses.

Theorem C07_poet_example_best :
  dp_sentence None (-10)%Z compare_weight [] ex_wg 3 = Some [(eC, 2); (eD, 3)] /\
  path_weight (-10)%Z [(eC, 2); (eD, 3)] = (-11)%Z /\ path_weight (-10)%Z [(eA, 1); (eB, 3)] = (-14)%Z.
Proof. exact ex_dp_best. Qed.
Print Assumptions C07_poet_example_best.

Theorem C07_poet_example_tie_break :
  dp_sentence None (-10)%Z compare_weight [] ex_wg_tie 3 = Some [(eA, 1); (eB, 3)] /\
  dp_sentence None (-10)%Z left_associate_compare [] ex_wg_tie 3 = Some [(eC, 2); (eD', 3)].
Proof. exact ex_dp_tie. Qed.
Print Assumptions C07_poet_example_tie_break.

Theorem C07_poet_example_no_sentence :
  dp_sentence None (-10)%Z compare_weight [] [(0, [(3, [eE])])] 3 = None /\
  dp_sentence None (-10)%Z compare_weight [] ex_wg 4 = None.
Proof. exact ex_dp_none. Qed.
Print Assumptions C07_poet_example_no_sentence.
