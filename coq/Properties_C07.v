(** C07 - candidates for an input are exactly the dictionary entries that its code spells. *)
From Coq Require Import List Arith ZArith NArith Bool.
From RimeV Require Import Lookup.Defs Lookup.Model Lookup.QueryProofs.
Import ListNotations.

Theorem C07_query_out_of_range : forall (g : graph) (t : table) (start : nat),
  g_ilen g <= start -> query g t start = [].
Proof. exact query_out_of_range. Qed.
Print Assumptions C07_query_out_of_range.
