(** C02 – the context reported after any call is well-formed.
    Property theorems only; each closed by a lemma proved elsewhere. *)
From Coq Require Import List ZArith NArith Bool Lia.
From Coq.Strings Require Import Byte.
From RimeV Require Import Base.Bytes Eng.Keys Eng.Cand Eng.Segm Eng.Ctx Eng.Engine Eng.Procs Eng.Api Eng.Oracle
     Eng.Trans Eng.Spec Eng.WfView Eng.Utf8Proofs Eng.WfProofs Eng.InvProofs Eng.PunctProofs Eng.KbProofs Eng.AsciiProofs Gen.Keymaps Gen.EngFacts.
Import ListNotations.

(** Source fact (gen/eng_facts.py, re-read from src/rime/context.cc on every
    run): Context::DeleteCandidate looks the candidate up before it writes
    selected_index. *)
Theorem C02_delete_guard_in_source : delete_candidate_guard = DeleteChecked.
Proof. reflexivity. Qed.
Print Assumptions C02_delete_guard_in_source.

(** After EVERY finite sequence of API calls with arbitrary arguments (keys
    with any code and mask, set_input, set_caret_pos beyond the end,
    select/highlight/delete by any index, paging, options, commit, clear, the
    getters), for any speller/menu configuration with page_size >= 1, either
    editor, and ANY translator whose candidate lists are shorter than
    2^31 - page_size, every observation is well-formed ([Spec.wf_viewb]):
    caret <= |input|; not composing => no input, no preedit, no menu;
    0 <= sel_start <= sel_end <= length and cursor <= length of the preedit;
    a reported menu has 0 <= highlighted < candidates on the page <= page_size,
    page_no >= 0 and page_no * page_size + highlighted = the selected index.
    Needs the source fact above ([cf_del_checked cfg = true]). *)
Theorem C02_wf_reported :
  forall (cfg : config) (translate : bytes -> seginfo -> list cand),
    (1 <= cf_page_size cfg)%Z ->
    (forall i s, (Z.of_nat (length (translate i s)) + cf_page_size cfg < 2147483648)%Z) ->
    cf_del_checked cfg = true ->
    forall ops, forallb wf_obsb (snd (run cfg translate ops)) = true.
Proof. exact wf_reported. Qed.
Print Assumptions C02_wf_reported.

(** Composition::GetPreedit yields ordered ranges for ANY composition, input,
    caret and prompt (the preedit clause needs no invariant at all). *)
Theorem C02_preedit_ranges :
  forall sg full_input caret_pos caret, wf_preeditb (comp_preedit sg full_input caret_pos caret) = true.
Proof. exact comp_preedit_wf. Qed.
Print Assumptions C02_preedit_ranges.

(** The UTF-8 clause: if moreover the translator's candidates for ASCII input
    strings have texts and preedits that start at character boundaries
    ([cand_clean]: implied by valid UTF-8) and every set_input argument is
    ASCII (keys only ever add printable ASCII), then sel_start, sel_end and
    cursor_pos of every reported preedit are UTF-8 character boundaries of its
    text ([Spec.wf_view_utf8b]). *)
Theorem C02_wf_reported_utf8 :
  forall (cfg : config) (translate : bytes -> seginfo -> list cand),
    (1 <= cf_page_size cfg)%Z ->
    (forall i s, (Z.of_nat (length (translate i s)) + cf_page_size cfg < 2147483648)%Z) ->
    cf_del_checked cfg = true ->
    (forall i s, all_ascii i -> Forall (fun c => cand_clean c = true) (translate i s)) ->
    forall ops, Forall op_ascii ops -> forallb wf_obs_utf8b (snd (run cfg translate ops)) = true.
Proof. exact wf_reported_utf8. Qed.
Print Assumptions C02_wf_reported_utf8.

(** GetPreedit alone: ASCII inputs, clean selected candidates and a clean
    prompt give boundary positions, for ANY composition. *)
Theorem C02_preedit_utf8_boundaries :
  forall sg full_input caret_pos caret,
    all_ascii (sg_input sg) -> all_ascii full_input -> Forall seg_clean (sg_segs sg) ->
    starts_clean (caret ++ comp_prompt sg) = true ->
    wf_preedit_utf8b (comp_preedit sg full_input caret_pos caret) = true.
Proof. exact comp_preedit_utf8. Qed.
Print Assumptions C02_preedit_utf8_boundaries.

(** The hypotheses are met by the synthetic schemas of the correspondence
    check as they are in the current source (both editors, Debug and NDEBUG). *)
Theorem C02_wf_reported_synth :
  forall fluid dlog ops, forallb wf_obsb (snd (run (synth_cfg fluid dlog) oracle_translate ops)) = true.
Proof.
  intros fluid dlog. apply wf_reported.
  - cbn. lia.
  - intros i s. pose proof (oracle_translate_length i s). cbn. lia.
  - reflexivity.  (* delete_checked_in_source computes to true from the generated fact *)
Qed.
Print Assumptions C02_wf_reported_synth.

Theorem C02_wf_reported_utf8_synth :
  forall fluid dlog ops, Forall op_ascii ops ->
    forallb wf_obs_utf8b (snd (run (synth_cfg fluid dlog) oracle_translate ops)) = true.
Proof.
  intros fluid dlog. apply wf_reported_utf8.
  - cbn. lia.
  - intros i s. pose proof (oracle_translate_length i s). cbn. lia.
  - reflexivity.
  - intros i s. apply oracle_translate_clean.
Qed.
Print Assumptions C02_wf_reported_utf8_synth.

(** The faithful model of the UNCHECKED DeleteCandidate (the code before the
    repair) refutes the property: two candidates on the page,
    delete_candidate(2) -> highlighted = num_candidates = 2. *)
Theorem C02_wf_reported_refuted_unchecked :
  exists ops, existsb (fun o => negb (wf_obsb o))
                      (snd (run (synth_cfg_with false false false) oracle_translate ops)) = true.
Proof. exact wf_reported_refuted_unchecked. Qed.
Print Assumptions C02_wf_reported_refuted_unchecked.

(** Non-vacuity: a history that reaches a second page, a partial selection and
    a multi-segment preedit reports regular (not crashed) well-formed states. *)
Definition c02_example_ops : list op :=
  [OpKey 97 0; OpKey 98 0; OpKey 99 0; OpKey 100 0; OpChangePage false; OpHighlight 7; OpSelect 11;
   OpKey 101 0; OpDelete 1; OpDelete 99; OpSetCaret 2; OpSetOption opt_soft_cursor true; OpKey 65361 0; OpCommit].
Theorem C02_example :
  forallb (fun o => match o with Obs _ v => wf_viewb v | ObsCrash _ => false end)
          (snd (run (synth_cfg false true) oracle_translate c02_example_ops)) = true /\
  existsb (fun o => match o with
                    | Obs _ v => match v_menu v with Some m => (0 <? mo_page_no m)%Z && (0 <? mo_hl m)%Z | None => false end
                    | ObsCrash _ => false
                    end)
          (snd (run (synth_cfg false true) oracle_translate c02_example_ops)) = true /\
  existsb (fun o => match o with
                    | Obs _ v => match v_preedit v with Some p => (0 <? pe_sel_start p)%nat | None => false end
                    | ObsCrash _ => false
                    end)
          (snd (run (synth_cfg false true) oracle_translate c02_example_ops)) = true.
Proof. repeat split; vm_compute; reflexivity. Qed.
Print Assumptions C02_example.

(** ---- round 3: the punctuator ---- [C02_wf_reported] quantifies over every configuration,
    so it covers every processor / segmentor chain of the model (punctuator with AlternatePunct
    writing Segment.selected_index directly, PairPunct, the digit-separator paths;
    punct_segmentor) and every menu, merged from several translators or not.  Non-vacuity for
    the punctuator schemas of the correspondence: their merged menus (punct_translator first,
    then the oracle translator) meet the length hypothesis. *)
Theorem C02_wf_reported_synth_punct :
  forall fluid dlog ops,
    forallb wf_obsb (snd (run (synth_punct_cfg fluid dlog) (synth_translate (synth_punct_cfg fluid dlog)) ops)) = true.
Proof. exact wf_reported_synth_punct. Qed.
Print Assumptions C02_wf_reported_synth_punct.

(** a concrete history through all four definition shapes: alternate a list key twice, a pair
    key twice (oddness), a commit key, the digit-separator path and a full_shape toggle *)
Definition c02_punct_ops : list op :=
  [OpKey 46 0; OpKey 46 0; OpKey 46 0; OpKey 34 0; OpKey 34 0; OpKey 51 0; OpKey 44 0; OpKey 44 0;
   OpSetOption opt_full_shape true; OpKey 32 0; OpKey 97 0; OpKey 59 0; OpKey 59 0; OpGetCommit].
Theorem C02_punct_example :
  let obs := snd (run (synth_punct_cfg false true) (synth_translate (synth_punct_cfg false true)) c02_punct_ops) in
  forallb wf_obsb obs = true /\
  existsb (fun o => match o with Obs _ v => match v_sel v with Some 2%N => true | _ => false end | _ => false end) obs = true /\
  existsb (fun o => match o with Obs (RCommit (Some _)) _ => true | _ => false end) obs = true.
Proof. cbv zeta. split; [|split]; vm_compute; reflexivity. Qed.
Print Assumptions C02_punct_example.

(** ---- round 3, stage 3: the key binder ---- [C02_wf_reported] covers chains with the key binder and
    any binding table (the replayed keys re-enter ProcessKey: [process_key_n_inv] by induction on the
    nesting depth).  Non-vacuity: the key-binder schemas of the correspondence and a run through
    paging bindings, ReinterpretPagingKey, option actions, the self-sending and the cyclic bindings. *)
Theorem C02_wf_reported_synth_kb :
  forall fluid dlog ops,
    forallb wf_obsb (snd (run (synth_kb_cfg fluid dlog) (synth_translate (synth_kb_cfg fluid dlog)) ops)) = true.
Proof. exact wf_reported_synth_kb. Qed.
Print Assumptions C02_wf_reported_synth_kb.

Theorem C02_key_binder_example :
  let cfg := synth_kb_cfg_gen true true true true true in
  forallb CommitProofs.not_crash (snd (run cfg (synth_translate cfg) kb_example_ops)) = true /\
  existsb (fun o => match o with Obs (RBool true) v => match v_input v with [] => false | _ => true end | _ => false end)
          (snd (run cfg (synth_translate cfg) kb_example_ops)) = true.
Proof. exact kb_guarded_ok. Qed.
Print Assumptions C02_key_binder_example.

(** round 4: the stock chain order with ascii_composer first and ascii_segmentor (synth_ascii_express / synth_ascii_fluid) *)
Theorem C02_wf_reported_synth_ascii :
  forall fluid dlog ops,
    forallb wf_obsb (snd (run (synth_ascii_cfg fluid dlog) (synth_translate (synth_ascii_cfg fluid dlog)) ops)) = true.
Proof. exact RimeV.Eng.AsciiProofs.wf_reported_synth_ascii. Qed.
Print Assumptions C02_wf_reported_synth_ascii.
