(** C02 – the context reported after any call is well-formed.
    Property theorems only; each closed by a lemma proved elsewhere. *)
From Coq Require Import List ZArith NArith Bool.
From Coq.Strings Require Import Byte.
From RimeV Require Import Base.Bytes Eng.Keys Eng.Cand Eng.Segm Eng.Ctx Eng.Engine Eng.Procs Eng.Api Eng.Oracle
     Eng.Spec Eng.InvProofs Gen.Keymaps Gen.EngFacts.
Import ListNotations.

(** Source fact (gen/eng_facts.py, re-read from src/rime/context.cc on every
    run): Context::DeleteCandidate looks the candidate up before it writes
    selected_index. *)
Theorem C02_delete_guard_in_source : delete_candidate_guard = DeleteChecked.
Proof. reflexivity. Qed.
Print Assumptions C02_delete_guard_in_source.

(** The faithful model of the UNCHECKED code refutes the property. *)
Theorem C02_wf_reported_refuted_unchecked :
  exists ops, existsb (fun o => negb (wf_obsb o))
                      (snd (run (synth_cfg_with false false false) oracle_translate ops)) = true.
Proof. exact wf_reported_refuted_unchecked. Qed.
Print Assumptions C02_wf_reported_refuted_unchecked.
