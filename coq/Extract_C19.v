(** Extraction of the C19 model (ExtrOcamlBasic only). *)
From Coq Require Extraction.
From Coq Require ExtrOcamlBasic.
From RimeV Require Import Base.Bytes Key.KeyModel Gen.KeyTable.
Extraction "c19_model.ml" byte_of_N N_of_byte translation_ok
  RimeGetModifierByName RimeGetModifierName RimeGetKeycodeByName RimeGetKeyName
  repr_key parse_key repr_seq parse_seq representable seq_representable.
