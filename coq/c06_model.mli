
val negb : bool -> bool

type nat =
| O
| S of nat

val option_map : ('a1 -> 'a2) -> 'a1 option -> 'a2 option

val fst : ('a1 * 'a2) -> 'a1

val snd : ('a1 * 'a2) -> 'a2

val length : 'a1 list -> nat

val app : 'a1 list -> 'a1 list -> 'a1 list

type comparison =
| Eq
| Lt
| Gt

val compOpp : comparison -> comparison

val add : nat -> nat -> nat

val sub : nat -> nat -> nat

type byte =
| X00
| X01
| X02
| X03
| X04
| X05
| X06
| X07
| X08
| X09
| X0a
| X0b
| X0c
| X0d
| X0e
| X0f
| X10
| X11
| X12
| X13
| X14
| X15
| X16
| X17
| X18
| X19
| X1a
| X1b
| X1c
| X1d
| X1e
| X1f
| X20
| X21
| X22
| X23
| X24
| X25
| X26
| X27
| X28
| X29
| X2a
| X2b
| X2c
| X2d
| X2e
| X2f
| X30
| X31
| X32
| X33
| X34
| X35
| X36
| X37
| X38
| X39
| X3a
| X3b
| X3c
| X3d
| X3e
| X3f
| X40
| X41
| X42
| X43
| X44
| X45
| X46
| X47
| X48
| X49
| X4a
| X4b
| X4c
| X4d
| X4e
| X4f
| X50
| X51
| X52
| X53
| X54
| X55
| X56
| X57
| X58
| X59
| X5a
| X5b
| X5c
| X5d
| X5e
| X5f
| X60
| X61
| X62
| X63
| X64
| X65
| X66
| X67
| X68
| X69
| X6a
| X6b
| X6c
| X6d
| X6e
| X6f
| X70
| X71
| X72
| X73
| X74
| X75
| X76
| X77
| X78
| X79
| X7a
| X7b
| X7c
| X7d
| X7e
| X7f
| X80
| X81
| X82
| X83
| X84
| X85
| X86
| X87
| X88
| X89
| X8a
| X8b
| X8c
| X8d
| X8e
| X8f
| X90
| X91
| X92
| X93
| X94
| X95
| X96
| X97
| X98
| X99
| X9a
| X9b
| X9c
| X9d
| X9e
| X9f
| Xa0
| Xa1
| Xa2
| Xa3
| Xa4
| Xa5
| Xa6
| Xa7
| Xa8
| Xa9
| Xaa
| Xab
| Xac
| Xad
| Xae
| Xaf
| Xb0
| Xb1
| Xb2
| Xb3
| Xb4
| Xb5
| Xb6
| Xb7
| Xb8
| Xb9
| Xba
| Xbb
| Xbc
| Xbd
| Xbe
| Xbf
| Xc0
| Xc1
| Xc2
| Xc3
| Xc4
| Xc5
| Xc6
| Xc7
| Xc8
| Xc9
| Xca
| Xcb
| Xcc
| Xcd
| Xce
| Xcf
| Xd0
| Xd1
| Xd2
| Xd3
| Xd4
| Xd5
| Xd6
| Xd7
| Xd8
| Xd9
| Xda
| Xdb
| Xdc
| Xdd
| Xde
| Xdf
| Xe0
| Xe1
| Xe2
| Xe3
| Xe4
| Xe5
| Xe6
| Xe7
| Xe8
| Xe9
| Xea
| Xeb
| Xec
| Xed
| Xee
| Xef
| Xf0
| Xf1
| Xf2
| Xf3
| Xf4
| Xf5
| Xf6
| Xf7
| Xf8
| Xf9
| Xfa
| Xfb
| Xfc
| Xfd
| Xfe
| Xff

val to_bits :
  byte -> bool * (bool * (bool * (bool * (bool * (bool * (bool * bool))))))

val eqb : bool -> bool -> bool

module Nat :
 sig
  val eqb : nat -> nat -> bool

  val leb : nat -> nat -> bool

  val ltb : nat -> nat -> bool
 end

val nth : nat -> 'a1 list -> 'a1 -> 'a1

val nth_error : 'a1 list -> nat -> 'a1 option

val rev : 'a1 list -> 'a1 list

val map : ('a1 -> 'a2) -> 'a1 list -> 'a2 list

val flat_map : ('a1 -> 'a2 list) -> 'a1 list -> 'a2 list

val fold_left : ('a1 -> 'a2 -> 'a1) -> 'a2 list -> 'a1 -> 'a1

val fold_right : ('a2 -> 'a1 -> 'a1) -> 'a1 -> 'a2 list -> 'a1

val existsb : ('a1 -> bool) -> 'a1 list -> bool

val filter : ('a1 -> bool) -> 'a1 list -> 'a1 list

val find : ('a1 -> bool) -> 'a1 list -> 'a1 option

val combine : 'a1 list -> 'a2 list -> ('a1 * 'a2) list

val skipn : nat -> 'a1 list -> 'a1 list

val seq : nat -> nat -> nat list

val repeat : 'a1 -> nat -> 'a1 list

type positive =
| XI of positive
| XO of positive
| XH

type n =
| N0
| Npos of positive

type z =
| Z0
| Zpos of positive
| Zneg of positive

module Pos :
 sig
  type mask =
  | IsNul
  | IsPos of positive
  | IsNeg
 end

module Coq_Pos :
 sig
  val succ : positive -> positive

  val add : positive -> positive -> positive

  val add_carry : positive -> positive -> positive

  val pred_double : positive -> positive

  type mask = Pos.mask =
  | IsNul
  | IsPos of positive
  | IsNeg

  val succ_double_mask : mask -> mask

  val double_mask : mask -> mask

  val double_pred_mask : positive -> mask

  val sub_mask : positive -> positive -> mask

  val sub_mask_carry : positive -> positive -> mask

  val mul : positive -> positive -> positive

  val iter : ('a1 -> 'a1) -> 'a1 -> positive -> 'a1

  val pow : positive -> positive -> positive

  val size : positive -> positive

  val compare_cont : comparison -> positive -> positive -> comparison

  val compare : positive -> positive -> comparison

  val eqb : positive -> positive -> bool

  val iter_op : ('a1 -> 'a1 -> 'a1) -> positive -> 'a1 -> 'a1

  val to_nat : positive -> nat

  val of_succ_nat : nat -> positive
 end

module N :
 sig
  val succ_double : n -> n

  val double : n -> n

  val add : n -> n -> n

  val sub : n -> n -> n

  val mul : n -> n -> n

  val compare : n -> n -> comparison

  val eqb : n -> n -> bool

  val leb : n -> n -> bool

  val ltb : n -> n -> bool

  val max : n -> n -> n

  val pow : n -> n -> n

  val log2 : n -> n

  val pos_div_eucl : positive -> n -> n * n

  val div_eucl : n -> n -> n * n

  val div : n -> n -> n

  val to_nat : n -> nat

  val of_nat : nat -> n
 end

val eqb0 : byte -> byte -> bool

val to_N : byte -> n

val of_N : n -> byte option

module Z :
 sig
  val double : z -> z

  val succ_double : z -> z

  val pred_double : z -> z

  val pos_sub : positive -> positive -> z

  val add : z -> z -> z

  val opp : z -> z

  val sub : z -> z -> z

  val compare : z -> z -> comparison

  val leb : z -> z -> bool

  val min : z -> z -> z

  val to_N : z -> n

  val of_nat : nat -> z

  val of_N : n -> z
 end

type bytes = byte list

val byte_of_N : n -> byte

val n_of_byte : byte -> n

val bytes_eqb : bytes -> bytes -> bool

val bytes_ltb : bytes -> bytes -> bool

type dec = { dm : n; de : z }

val dec_zero : dec

val dec_scale : dec -> z -> n

val dec_leb : dec -> dec -> bool

val dec_ltb : dec -> dec -> bool

val dbl_epsilon : dec

val eff : dec -> dec

val is_space : byte -> bool

val digit_of : byte -> n option

val read_digits : n -> nat -> bytes -> (n * nat) * bytes

val drop_while : ('a1 -> bool) -> 'a1 list -> 'a1 list

val ndigits_aux : nat -> n -> z

val ndigits : n -> z

val dec_in_double_range : dec -> bool

val parse_stod : bytes -> dec

val ends_with_percent : bytes -> bool

val weight_of_str : bytes -> dec

val trim_right : bytes -> bytes

val split_keep : byte -> bytes -> bytes list

val is_nil : 'a1 list -> bool

val split_skip : byte -> bytes -> bytes list

type colspec = { col_text : nat option; col_code : nat option;
                 col_weight : nat option }

type lineres =
| LSkip
| LRow of bytes * bytes * bytes

val no_comment_line : bytes

val column : bytes list -> nat option -> bytes

val parse_line : colspec -> bool -> bytes -> bool * lineres

type rawentry = { re_text : bytes; re_code : bytes list; re_w : dec }

type collector = { co_syll : bytes list; co_entries : rawentry list;
                   co_words : (bytes * bytes list) list; co_num : nat;
                   co_uncoded : nat }

val collector0 : collector

val set_insert : bytes -> bytes list -> bytes list

val words_find : bytes -> (bytes * bytes list) list -> bytes list

val words_add :
  bytes -> bytes -> (bytes * bytes list) list -> (bytes * bytes list) list

val create_entry : bytes -> bytes -> bytes -> collector -> collector

val collect_row : lineres -> collector -> collector

val collect_lines : colspec -> bool -> bytes list -> collector -> collector

val collect_files : (colspec * bytes list) list -> collector

type entry = { e_text : bytes; e_code : nat list; e_w : dec }

type 'a page = { p_entries : entry list; p_next : 'a option }

type 'a lvl = (nat * 'a page) list

type voc4 = entry list

type voc3 = voc4 lvl

type voc2 = voc3 lvl

type voc1 = voc2 lvl

val page0 : 'a1 page

val upd : nat -> ('a1 page -> 'a1 page) -> 'a1 lvl -> 'a1 lvl

val add_entry : entry -> 'a1 page -> 'a1 page

val on_next : 'a1 -> ('a1 -> 'a1) -> 'a1 page -> 'a1 page

val ins_lvl :
  'a1 -> (nat list -> 'a1 -> 'a1) -> entry -> nat list -> 'a1 lvl -> 'a1 lvl

val ins4 : entry -> nat list -> voc4 -> voc4

val ins3 : entry -> nat list -> voc3 -> voc3

val ins2 : entry -> nat list -> voc2 -> voc2

val ins1 : entry -> nat list -> voc1 -> voc1

val vocab_of : entry list -> voc1

val insert_desc : entry -> entry list -> entry list

val sort_entries : entry list -> entry list

val sort_lvl : ('a1 -> 'a1) -> 'a1 lvl -> 'a1 lvl

val sort3 : voc3 -> voc3

val sort2 : voc2 -> voc2

val sort1 : voc1 -> voc1

val index_of : bytes -> bytes list -> nat option

val id_of : bytes list -> bytes -> nat

val short_of : bytes list -> rawentry -> entry

val entries_of : collector -> entry list

val compile_vocab : bool -> collector -> voc1

type out = nat list * (bytes * dec)

val flat_lvl :
  (nat list -> 'a1 -> out list) -> nat list -> 'a1 lvl -> out list

val flat4 : nat list -> voc4 -> out list

val flat3 : nat list -> voc4 lvl -> out list

val flat2 : nat list -> voc4 lvl lvl -> out list

val flat1 : voc1 -> out list

type 'f ientry = { ie_text : bytes; ie_w : 'f }

type 'f lentry = { le_extra : nat list; le_entry : 'f ientry }

type ('f, 'a) inode = { n_key : nat; n_entries : 'f ientry list;
                        n_next : 'a option }

type 'f tail = 'f lentry list

type 'f trunk3 = ('f, 'f tail) inode list

type 'f trunk2 = ('f, 'f trunk3) inode list

type 'f hnode = { h_entries : 'f ientry list; h_next : 'f trunk2 option }

type 'f head = 'f hnode list

val build_entry : (dec -> 'a1) -> entry -> 'a1 ientry

val build_tail : (dec -> 'a1) -> voc4 -> 'a1 tail

val build_trunk :
  (dec -> 'a1) -> ('a2 -> 'a3) -> 'a2 lvl -> ('a1, 'a3) inode list

val build_trunk3 : (dec -> 'a1) -> voc3 -> 'a1 trunk3

val build_trunk2 : (dec -> 'a1) -> voc2 -> 'a1 trunk2

val hnode0 : 'a1 hnode

val set_nth : nat -> 'a1 -> 'a1 list -> 'a1 list

val build_head : (dec -> 'a1) -> nat -> voc1 -> 'a1 head

val find_node : nat -> ('a1, 'a2) inode list -> ('a1, 'a2) inode option

type 'f iout = nat list * 'f ientry

val emit : nat list -> 'a1 ientry list -> 'a1 iout list

val emit_tail : nat list -> 'a1 tail -> 'a1 iout list

val enum_trunk :
  (nat list -> 'a2 -> 'a1 iout list) -> nat -> nat list -> ('a1, 'a2) inode
  list -> 'a1 iout list

val enum_trunk3 :
  nat -> nat list -> ('a1, 'a1 tail) inode list -> 'a1 iout list

val enum_trunk2 :
  nat -> nat list -> ('a1, ('a1, 'a1 tail) inode list) inode list -> 'a1 iout
  list

val enumerate : nat -> 'a1 head -> 'a1 iout list

val query_phrases : 'a1 head -> nat list -> 'a1 iout list

val lvl_find : nat -> 'a1 lvl -> 'a1 page option

val rev_codes : bytes list -> voc1 -> bytes -> bytes list

val join_sp : bytes list -> bytes

val rev_lookup : bytes list -> voc1 -> bytes -> bytes option

type compiled = { c_syll : bytes list; c_num_entries : nat; c_uncoded : 
                  nat; c_voc : voc1; c_index : dec head }

val compile : bool -> (colspec * bytes list) list -> compiled

val code_ids : bytes list -> bytes list -> nat list option

type layout = { sz_metadata : n; al_metadata : n; sz_stringtype : n;
                sz_arr_stringtype : n; sz_headnode : n; sz_arr_headnode : 
                n; sz_trunknode : n; sz_arr_trunknode : n; sz_longentry : 
                n; sz_arr_longentry : n; sz_entry : n; al_entry : n;
                sz_syllid : n; al_syllid : n; al_char : n }

type estimate_kind =
| EstLinear of n * n * n
| EstIndexExact of n * n * n
| EstUnrecognised

type build_facts = { bf_estimate : estimate_kind; bf_growth_doubles : 
                     bool; bf_rederive_after_image : bool }

type merr =
| StalePointer
| StaleStringRefs
| NoEstimate

type 'a res =
| Ok of 'a
| Err of merr

type mfile = { cap : n; used : n; epoch : nat; has_refs : bool;
               stale_refs : bool }

type ptr = nat * n

type 'a m = mfile -> ('a * mfile) res

val ret : 'a1 -> 'a1 m

val bind : 'a1 m -> ('a1 -> 'a2 m) -> 'a2 m

val align_up : n -> n -> n

val allocate : bool -> n -> n -> ptr m

val touch : ptr -> unit m

val add_ref : ptr -> unit m

val patch_refs : unit m

val repeatM : nat -> unit m -> unit m

val forM : 'a1 list -> ('a1 -> unit m) -> unit m

val arr_bytes : n -> n -> nat -> n

val create_array : layout -> bool -> n -> n -> nat -> ptr m

val m_build_entry : ptr -> unit m

val m_build_entry_list : layout -> bool -> ptr -> nat -> unit m

val m_build_tail : layout -> bool -> voc4 -> ptr m

val m_build_trunk : layout -> bool -> ('a1 -> ptr m) -> 'a1 lvl -> ptr m

val m_build_trunk3 : layout -> bool -> voc3 -> ptr m

val m_build_trunk2 : layout -> bool -> voc2 -> ptr m

val m_build_head : layout -> bool -> nat -> voc1 -> ptr m

val m_build_prefix : layout -> bool -> nat -> voc1 -> ptr m

val m_build_finish : layout -> bool -> bool -> ptr -> n -> unit m

val m_table_build : layout -> bool -> bool -> nat -> voc1 -> n -> unit m

val sum_N : ('a1 -> n) -> 'a1 list -> n

val bytes_tail : layout -> voc4 -> n

val bytes_page : layout -> ('a1 -> n) -> 'a1 page -> n

val bytes_trunk : layout -> ('a1 -> n) -> 'a1 lvl -> n

val bytes_trunk3 : layout -> voc3 -> n

val bytes_trunk2 : layout -> voc2 -> n

val bytes_head : layout -> nat -> voc1 -> n

val bytes_fixed : layout -> nat -> voc1 -> n

val bytes_needed : layout -> nat -> voc1 -> n -> n

val estimate : layout -> estimate_kind -> nat -> nat -> voc1 -> n option

val mfile0 : n -> mfile

val table_build :
  layout -> build_facts -> nat -> nat -> voc1 -> n -> mfile res

val current_layout : layout

val current_facts : build_facts
